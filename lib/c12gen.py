"""C12 — brand isolation probe grammar: thing x escape route x entry point, cross-arena uses, re-entrancy,
variance and auto-trait probes, root-type shapes whose well-formedness would imply 'gc: 'static."""
from probes import Probe

PRELUDE = r'''#![forbid(unsafe_code)]
#![allow(unused, dropping_copy_types, dropping_references)]
use gc_arena::{Arena, Collect, DynamicRoot, DynamicRootSet, Finalization, Gc, GcBuilder, GcWeak, Lock, Mutation, RefLock, Rootable, Static, barrier::Write, arena::rootless_mutate, metrics::Metrics};
use std::cell::{Cell, RefCell};
use std::marker::PhantomData;
use std::rc::Rc;

#[derive(Collect)]
#[collect(no_drop)]
struct R<'gc> {
    g: Gc<'gc, Lock<u32>>,
    rl: Gc<'gc, RefLock<u32>>,
    w: GcWeak<'gc, Lock<u32>>,
    slot: Gc<'gc, Lock<Option<Gc<'gc, Lock<u32>>>>>,
    set: DynamicRootSet<'gc>,
}
fn make<'gc>(mc: &Mutation<'gc>) -> R<'gc> {
    let g = Gc::new(mc, Lock::new(1));
    R { g, rl: Gc::new(mc, RefLock::new(2)), w: Gc::downgrade(g), slot: Gc::new(mc, Lock::new(None)), set: DynamicRootSet::new(mc) }
}
type AR = Arena<Rootable![R<'_>]>;
fn arena() -> AR { Arena::new(|mc| make(mc)) }
fn need_static<T: 'static>(_: T) {}
'''

# name -> (expression, type with 'static brand, needs a 'gc-long root reference, finalize only)
THINGS = {
    "gc": ("root.g", "Gc<'static, Lock<u32>>", False, False),
    "gc_new": ("Gc::new(mc, 7u32)", "Gc<'static, u32>", False, False),
    "weak": ("root.w", "GcWeak<'static, Lock<u32>>", False, False),
    "gcref": ("Gc::as_ref(root.g)", "&'static Lock<u32>", False, False),
    "mutation": ("mc", "&'static Mutation<'static>", False, False),
    "finalization": ("fc", "&'static Finalization<'static>", False, True),
    "rootset": ("root.set", "DynamicRootSet<'static>", False, False),
    "write": ("Gc::write(mc, root.g)", "&'static Write<Lock<u32>>", False, False),
    "unlocked": ("root.g.unlock(mc)", "&'static Cell<u32>", False, False),
    "rootref": ("root", "&'static R<'static>", True, False),
    "refguard": ("root.rl.borrow()", "std::cell::Ref<'static, u32>", False, False),
    "refmut": ("root.rl.borrow_mut(mc)", "std::cell::RefMut<'static, u32>", False, False),
    "nested": ("Some(vec![root.g])", "Option<Vec<Gc<'static, Lock<u32>>>>", False, False),
    # pointers that come out of a conversion: the conversion must hand the brand through unchanged
    "unsize_dyn": ("gc_arena::unsize!(Gc::new(mc, 7u32) => dyn std::fmt::Debug)", "Gc<'static, dyn std::fmt::Debug>", False, False),
    "unsize_slice": ("gc_arena::unsize!(Gc::new(mc, [1u8, 2, 3]) => [u8])", "Gc<'static, [u8]>", False, False),
    "unsize_rooted": ("gc_arena::unsize!(root.g => dyn std::fmt::Debug)", "Gc<'static, dyn std::fmt::Debug>", False, False),
    "erased": ("Gc::erase(root.g)", "Gc<'static, ()>", False, False),
    "weak_erased": ("GcWeak::erase(root.w)", "GcWeak<'static, ()>", False, False),
    "upgraded": ("root.w.upgrade(mc).unwrap()", "Gc<'static, Lock<u32>>", False, False),
    "resurrected": ("root.w.resurrect(fc).unwrap()", "Gc<'static, Lock<u32>>", False, True),
    "fetched": ("{ let h = root.set.stash::<Rootable![Lock<u32>]>(mc, root.g); root.set.fetch(&h) }", "Gc<'static, Lock<u32>>", False, False),
    "thinned": ("Gc::as_thin(gc_arena::GcSliceBuilder::<u8>::new(3).write_slice_with(mc, |i| i as u8))", "gc_arena::GcThinSlice<'static, u8>", False, False),
    "fattened": ("Gc::as_fat(Gc::as_thin(gc_arena::GcSliceBuilder::<u8>::new(3).write_slice_with(mc, |i| i as u8)))", "gc_arena::GcSlice<'static, u8>", False, False),
}

# entry -> (template with {PRE} {BODY} {POST}, closure may return a value, root is a 'gc-long reference, has fc)
ENTRIES = {
    "mutate": ("let mut arena = arena();\n{PRE}\nlet _res = arena.mutate(|mc, root| {{ {BODY} }});\n{POST}", True, True, False),
    "mutate_root": ("let mut arena = arena();\n{PRE}\nlet _res = arena.mutate_root(|mc, root| {{ {BODY} }});\n{POST}", True, True, False),
    "finalize": ("let mut arena = arena();\n{PRE}\nlet _res = arena.finish_marking().unwrap().finalize(|fc, root| {{ let mc: &Mutation<'_> = fc; {BODY} }});\n{POST}", True, True, True),
    "rootless": ("{PRE}\nlet _res = rootless_mutate(|mc| {{ let rootv = make(mc); let root = &rootv; {BODY} }});\n{POST}", True, False, False),
    "new": ("{PRE}\nlet arena = Arena::<Rootable![R<'_>]>::new(|mc| {{ let rootv = make(mc); {{ let root = &rootv; {BODY}; }} rootv }});\n{POST}", False, False, False),
    "try_new": ("{PRE}\nlet arena = Arena::<Rootable![R<'_>]>::try_new(|mc| {{ let rootv = make(mc); {{ let root = &rootv; {BODY}; }} Ok::<_, ()>(rootv) }});\n{POST}", False, False, False),
    "map_root": ("let arena = arena();\n{PRE}\nlet arena = arena.map_root::<Rootable![R<'_>]>(|mc, rootv| {{ {{ let root = &rootv; {BODY}; }} rootv }});\n{POST}", False, False, False),
    "try_map_root": ("let arena = arena();\n{PRE}\nlet arena = arena.try_map_root::<Rootable![R<'_>], ()>(|mc, rootv| {{ {{ let root = &rootv; {BODY}; }} Ok(rootv) }});\n{POST}", False, False, False),
}

# route -> (top-level items, PRE, BODY, POST, needs closure return)
def routes(expr, sty):
    return {
        "return": ("", "", f"{expr}", "", True),
        "outer_var": ("", "let mut out = None;", f"out = Some({expr});", "let _o = out;", False),
        "thread_local": (f"thread_local! {{ static TL: RefCell<Option<{sty}>> = RefCell::new(None); }}", "", f"TL.with(|t| *t.borrow_mut() = Some({expr}));", "", False),
        "static_bound": ("", "", f"need_static({expr});", "", False),
        "box_any": ("", "", f"let _b: Box<dyn std::any::Any> = Box::new({expr});", "", False),
        "thread_send": ("", "", f"let t = {expr}; std::thread::scope(|s| {{ s.spawn(move || {{ let _u = t; }}); }});", "", False),
        "thread_share": ("", "", f"let t = {expr}; std::thread::scope(|s| {{ s.spawn(|| {{ let _u = &t; }}); }});", "", False),
        "channel": ("", "let (tx, rx) = std::sync::mpsc::channel();", f"let _ = tx.send({expr});", "let _got = rx.try_recv();", False),
        "outer_vec": ("", "let mut out = Vec::new();", f"out.push({expr});", "let _o = out;", False),
        "return_closure": ("", "", f"{{ let t = {expr}; move || {{ let _u = &t; }} }}", "", True),
        "return_boxed_closure": ("", "", f"{{ let t = {expr}; Box::new(move || {{ let _u = &t; }}) as Box<dyn FnOnce()> }}", "", True),
        "return_async_block": ("", "", f"{{ let t = {expr}; async move {{ let _u = &t; }} }}", "", True),
        "return_iterator": ("", "", f"std::iter::once({expr})", "", True),
        "return_in_option_box": ("", "", f"Some(Box::new({expr}))", "", True),
        "outer_refcell": ("", "let out = RefCell::new(None);", f"*out.borrow_mut() = Some({expr});", "let _o = out.into_inner();", False),
        "outer_rc_refcell": ("", "let out = Rc::new(RefCell::new(None)); let out2 = out.clone();", f"*out2.borrow_mut() = Some({expr});", "let _o = out.borrow_mut().take();", False),
        "once_lock_static": (f"static SLOT: std::sync::OnceLock<{sty}> = std::sync::OnceLock::new();", "", f"let _ = SLOT.set({expr});", "", False),
    }


def prog(items, main):
    return PRELUDE + items + "\nfn main() {\n" + main + "\n}\n"


CROSS = {
    "store_foreign_ptr": "r2.slot.set(mc2, Some(r1.g));",
    "store_with_foreign_mutation": "r2.slot.set(mc1, Some(r2.g));",
    "write_foreign": "let _ = Gc::write(mc2, r1.g);",
    "upgrade_foreign": "let _ = r1.w.upgrade(mc2);",
    "stash_foreign_ptr": "let _ = r2.set.stash::<Rootable![Lock<u32>]>(mc2, r1.g);",
    "stash_in_foreign_set": "let _ = r1.set.stash::<Rootable![Lock<u32>]>(mc2, r2.g);",
    "alloc_holding_foreign": "let _ = Gc::new(mc2, r1.g);",
    "lock_set_foreign": "r1.g.set(mc2, 5);",
    "borrow_mut_foreign": "let _ = r1.rl.borrow_mut(mc2);",
    "ptr_eq_across": "let _ = Gc::ptr_eq(r1.g, r2.g);",
    "unlock_foreign": "let _ = r1.g.unlock(mc2);",
    "barrier_foreign": "mc2.backward_barrier(Gc::erase(r1.g), None);",
    "barrier_foreign_child": "mc2.forward_barrier(Some(Gc::erase(r2.g)), Gc::erase(r1.g));",
    "alloc_holding_foreign_unsized": "let _ = Gc::new(mc2, (r2.g, gc_arena::unsize!(r1.g => dyn std::fmt::Debug)));",
    "alloc_holding_foreign_erased": "let _ = Gc::new(mc2, (r2.g, Gc::erase(r1.g)));",
    "alloc_holding_foreign_upgraded": "let _ = Gc::new(mc2, (r2.g, r1.w.upgrade(mc1).unwrap()));",
    "alloc_holding_foreign_fetched": "let h = r1.set.stash::<Rootable![Lock<u32>]>(mc1, r1.g); let _ = Gc::new(mc2, (r2.g, r1.set.fetch(&h)));",
}

REENTRANT = ["arena.collect_debt();", "let _ = arena.mark_debt();", "let _ = arena.finish_marking();", "arena.cycle_debt();", "arena.finish_cycle();",
             "arena.mutate_root(|_, _| ());", "let _a2 = arena.map_root::<Rootable![R<'_>]>(|_, r| r);", "drop(arena);"]

VARIANCE_TYPES = {
    "Gc": "Gc<'{l}, u32>", "GcWeak": "GcWeak<'{l}, u32>", "Mutation": "Mutation<'{l}>", "Finalization": "Finalization<'{l}>",
    "DynamicRootSet": "DynamicRootSet<'{l}>", "GcBuilder": "GcBuilder<'{l}, u32>", "ZstCache": "gc_arena::zst_cache::ZstCache<'{l}, 8>",
    "GcNested": "Gc<'{l}, Lock<Option<Gc<'{l}, u32>>>>", "GcSlice": "gc_arena::GcSlice<'{l}, u8>", "GcThinSlice": "gc_arena::GcThinSlice<'{l}, u8>",
    "GcStr": "gc_arena::GcStr<'{l}>", "GcThinStr": "gc_arena::GcThinStr<'{l}>", "GcSliceWithHeader": "gc_arena::GcSliceWithHeader<'{l}, u32, u8>",
    "GcLock": "gc_arena::GcLock<'{l}, u32>", "GcRefLock": "gc_arena::GcRefLock<'{l}, u32>", "GcDyn": "Gc<'{l}, dyn std::fmt::Debug>",
    "GcSliceBuilder": "gc_arena::GcSliceBuilder<'{l}, u8>", "GcStrBuilder": "gc_arena::GcStrBuilder<'{l}>",
}

AUTO_TYPES = {
    "Gc": "Gc<'static, u32>", "GcWeak": "GcWeak<'static, u32>", "Mutation": "Mutation<'static>", "Finalization": "Finalization<'static>",
    "DynamicRootSet": "DynamicRootSet<'static>", "GcBuilder": "GcBuilder<'static, u32>", "ZstCache": "gc_arena::zst_cache::ZstCache<'static, 8>",
    "Arena_ptr_root": "AR", "Arena_unit_root": "Arena<Rootable![()]>", "Arena_u32_root": "Arena<Rootable![u32]>", "Arena_vec_string_root": "Arena<Rootable![Vec<String>]>",
    "Arena_static_root": "Arena<Static<u32>>", "Arena_gc_root": "Arena<Rootable![Gc<'_, u32>]>", "DynamicRoot": "DynamicRoot<Rootable![Lock<u32>]>", "Metrics": "Metrics",
    "GcSlice": "gc_arena::GcSlice<'static, u8>", "GcThinStr": "gc_arena::GcThinStr<'static>", "MarkedArena": "gc_arena::arena::MarkedArena<'static, Rootable![()]>",
}

# root types whose well-formedness would imply 'gc: 'static (D4 family; rust-lang/rust#25860)
SHAPES = {
    "phantom": ("Rootable![PhantomData<&'static &'_ ()>]", "PhantomData", "_"),
    "tuple_gc_phantom": ("Rootable![(Gc<'_, P>, PhantomData<&'static &'_ ()>)]", "(keep, PhantomData)", "_"),
    "option_ref": ("Rootable![Option<&'static &'_ ()>]", "None", "_"),
    "static_ref_gc": ("Rootable![&'static Gc<'_, P>]", "Box::leak(Box::new(keep))", "_"),
    "derive_struct": ("Rootable![W<'_>]", "W(PhantomData)", "_"),
    "manual_rootable": ("MyR", "PhantomData", "_"),
}
SHAPE_ITEMS = r'''
struct P(Rc<Cell<bool>>);
impl Drop for P { fn drop(&mut self) { self.0.set(true); } }
impl<'gc> gc_arena::Rootable<'gc> for P { type Root = P; }
gc_arena::static_collect!(P);
'''
SHAPE_EXTRA = {
    "derive_struct": "#[derive(Collect)]\n#[collect(no_drop)]\nstruct W<'gc>(PhantomData<&'static &'gc ()>) where 'gc: 'static;\n",
    "manual_rootable": "struct MyR;\nimpl<'a> gc_arena::Rootable<'a> for MyR { type Root = PhantomData<&'static &'a ()>; }\n",
}


def shape_prog(shape, entry, route):
    rty, rootval, _ = SHAPES[shape]
    tl = "thread_local! { static TL: RefCell<Option<Gc<'static, P>>> = RefCell::new(None); }\n" if route == "thread_local" else ""
    store = "out = Some(keep);" if route == "outer_var" else "TL.with(|t| *t.borrow_mut() = Some(keep));"
    take = "let escaped: Gc<'static, P> = out.unwrap();" if route == "outer_var" else "let escaped: Gc<'static, P> = TL.with(|t| t.borrow_mut().take().unwrap());"
    pre = "let flag = Rc::new(Cell::new(false));\nlet mut out: Option<Gc<'static, P>> = None;\n"
    alloc = "let keep = Gc::new(mc, P(flag.clone()));"
    if entry == "new":
        body = f"let arena = Arena::<{rty}>::new(|mc| {{ {alloc} {store} {rootval} }});\n"
    elif entry == "mutate":
        body = f"let arena = Arena::<{rty}>::new(|mc| {{ {alloc} {rootval} }});\narena.mutate(|mc, _root| {{ {alloc} {store} }});\n"
    elif entry == "mutate_root":
        body = f"let mut arena = Arena::<{rty}>::new(|mc| {{ {alloc} {rootval} }});\narena.mutate_root(|mc, _root| {{ {alloc} {store} }});\n"
    elif entry == "map_root":
        body = f"let arena = Arena::<Rootable![()]>::new(|_| ());\nlet arena = arena.map_root::<{rty}>(|mc, _| {{ {alloc} {store} {rootval} }});\n"
    else:
        return None
    # the consequence, observed without touching freed memory
    post = "drop(arena);\n" + take + "\nlet _still_held = &escaped;\nif flag.get() { println!(\"escaped Gc<'static> outlived its arena: value destructed while the pointer is still held\"); std::process::exit(3); }\n"
    return prog(SHAPE_ITEMS + SHAPE_EXTRA.get(shape, "") + tl, pre + body + post)


def generate(tier):
    ps = []
    # ---- thing x route x entry
    for ename, (etpl, can_ret, long_root, has_fc) in ENTRIES.items():
        for tname, (expr, sty, needs_long_root, fin_only) in THINGS.items():
            if fin_only and not has_fc:
                continue
            if needs_long_root and not long_root:
                continue
            # positive twin: the thing is computed and dropped inside the callback
            twin_body = f"let _t = {expr};" + (" ()" if can_ret else "")
            ps.append(Probe(f"escape/{ename}/{tname}/twin", prog("", etpl.format(PRE="", BODY=twin_body, POST="")), "accept", group=f"escape/{ename}"))
            for rname, (items, pre, body, post, needs_ret) in routes(expr, sty).items():
                if needs_ret and not can_ret:
                    continue
                if not needs_ret and can_ret:
                    body = body + " ()"
                ps.append(Probe(f"escape/{ename}/{tname}/{rname}", prog(items, etpl.format(PRE=pre, BODY=body, POST=post)), "reject", group=f"escape/{ename}"))
    # harmless payload through every route (proves the route itself compiles)
    for rname, (items, pre, body, post, needs_ret) in routes("5u32", "u32").items():
        etpl, can_ret, _, _ = ENTRIES["mutate"]
        if not needs_ret:
            body = body + " ()"
        ps.append(Probe(f"escape/route_twin/{rname}", prog(items, etpl.format(PRE=pre, BODY=body, POST=post)), "accept", group="escape/route_twin"))
    # ---- cross-arena
    nest = "let a1 = arena(); let a2 = arena();\na1.mutate(|mc1, r1| {{ a2.mutate(|mc2, r2| {{ {USE} }}); }});"
    ps.append(Probe("cross/mutate/twin", prog("", nest.format(USE="r2.slot.set(mc2, Some(r2.g)); r1.slot.set(mc1, Some(r1.g));")), "accept", group="cross"))
    for cname, use in CROSS.items():
        ps.append(Probe(f"cross/mutate/{cname}", prog("", nest.format(USE=use)), "reject", group="cross"))
    fin = "let mut a1 = arena(); let mut a2 = arena();\nlet m1 = a1.finish_marking().unwrap(); let m2 = a2.finish_marking().unwrap();\nm1.finalize(|fc1, r1| {{ m2.finalize(|fc2, r2| {{ let mc1: &Mutation<'_> = fc1; let mc2: &Mutation<'_> = fc2; {USE} }}); }});"
    ps.append(Probe("cross/finalize/twin", prog("", fin.format(USE="r2.slot.set(mc2, Some(r2.g)); let _ = r1.w.resurrect(fc1);")), "accept", group="cross"))
    for cname, use in list(CROSS.items()) + [("resurrect_foreign", "let _ = r1.w.resurrect(fc2);"), ("is_dead_foreign", "let _ = r1.w.is_dead(fc2);"), ("gc_is_dead_foreign", "let _ = Gc::is_dead(fc2, r1.g);"), ("gc_resurrect_foreign", "Gc::resurrect(fc2, r1.g);"),
                             ("gc_is_dead_foreign_upgraded", "let _ = Gc::is_dead(fc2, r1.w.upgrade(mc1).unwrap());")]:
        ps.append(Probe(f"cross/finalize/{cname}", prog("", fin.format(USE=use)), "reject", group="cross"))
    ps.append(Probe("cross/swap_roots", prog("", "let mut a1 = arena(); let mut a2 = arena();\na1.mutate_root(|_, r1| { a2.mutate_root(|_, r2| { std::mem::swap(r1, r2); }); });"), "reject", group="cross"))
    ps.append(Probe("cross/swap_roots_twin", prog("", "let mut a1 = arena(); let mut a2 = arena();\na1.mutate_root(|_, r1| { a2.mutate_root(|_, r2| { let _ = (&r1.g, &r2.g); }); });"), "accept", group="cross"))
    ps.append(Probe("cross/builder_completed_elsewhere", prog("", "let a1 = arena(); let a2 = arena();\nlet g = a1.mutate(|mc1, r1| { let b = GcBuilder::<Lock<u32>>::new(); a2.mutate(|mc2, r2| { let g2 = b.write(mc2, Lock::new(1)); r1.slot.set(mc1, Some(g2)); }); });"), "reject", group="cross"))
    # ---- re-entrancy: a collection method of the same arena from inside its callback
    for i, call in enumerate(REENTRANT):
        ps.append(Probe(f"reentrant/mutate/{i}", prog("", f"let mut arena = arena();\narena.mutate(|mc, root| {{ {call} }});"), "reject", group="reentrant"))
        ps.append(Probe(f"reentrant/finalize/{i}", prog("", f"let mut arena = arena();\nlet m = arena.finish_marking().unwrap();\nm.finalize(|fc, root| {{ {call} }});"), "reject", group="reentrant"))
    ps.append(Probe("reentrant/twin", prog("", "let mut arena = arena();\narena.mutate(|mc, root| { let _ = root.g; });\narena.finish_cycle();\nlet _ = arena.mark_debt();"), "accept", group="reentrant"))
    # ---- variance
    for vname, ty in VARIANCE_TYPES.items():
        a, b = ty.format(l="a"), ty.format(l="b")
        ps.append(Probe(f"variance/{vname}/twin", prog(f"fn id<'a>(x: {a}) -> {a} {{ x }}\nfn idr<'r, 'a>(x: &'r {a}) -> &'r {a} {{ x }}", ""), "accept", group="variance"))
        ps.append(Probe(f"variance/{vname}/shrink", prog(f"fn f<'a, 'b: 'a>(x: {b}) -> {a} {{ x }}", ""), "reject", group="variance"))
        ps.append(Probe(f"variance/{vname}/grow", prog(f"fn f<'a, 'b: 'a>(x: {a}) -> {b} {{ x }}", ""), "reject", group="variance"))
        ps.append(Probe(f"variance/{vname}/shrink_ref", prog(f"fn f<'r, 'a, 'b: 'a>(x: &'r {b}) -> &'r {a} {{ x }}", ""), "reject", group="variance"))
        ps.append(Probe(f"variance/{vname}/grow_ref", prog(f"fn f<'r, 'a, 'b: 'a>(x: &'r {a}) -> &'r {b} {{ x }}", ""), "reject", group="variance"))
    # ---- variance in the PAYLOAD type of types that are written to: a builder consumes values of its payload type and the
    # allocation's vtable is fixed when the builder is created, so the payload lifetime must neither shrink nor grow (D7)
    payload = {
        "GcBuilder": "GcBuilder<'gc, &'{l} u8>", "GcSliceBuilder": "gc_arena::GcSliceBuilder<'gc, &'{l} u8>",
        "GcSliceWithHeaderBuilder_header": "gc_arena::GcSliceWithHeaderBuilder<'gc, &'{l} u8, u8>", "GcSliceWithHeaderBuilder_element": "gc_arena::GcSliceWithHeaderBuilder<'gc, u8, &'{l} u8>",
        "GcBuilder_nested": "GcBuilder<'gc, Option<Vec<&'{l} u8>>>", "GcLock": "Gc<'gc, Lock<&'{l} u8>>", "GcRefLock": "Gc<'gc, RefLock<&'{l} u8>>",
    }
    for vname, ty in payload.items():
        a, b = ty.format(l="a"), ty.format(l="b")
        ps.append(Probe(f"payload_variance/{vname}/twin", prog(f"fn id<'gc, 'a>(x: {a}) -> {a} {{ x }}", ""), "accept", group="payload_variance"))
        ps.append(Probe(f"payload_variance/{vname}/shrink", prog(f"fn f<'gc, 'a, 'b: 'a>(x: {b}) -> {a} {{ x }}", ""), "reject", group="payload_variance"))
        ps.append(Probe(f"payload_variance/{vname}/grow", prog(f"fn f<'gc, 'a, 'b: 'a>(x: {a}) -> {b} {{ x }}", ""), "reject", group="payload_variance"))
    d7 = ("let mut arena = Arena::<Rootable![Gc<'_, Lock<Option<Gc<'_, &'_ Lock<u32>>>>>]>::new(|mc| Gc::new(mc, Lock::new(None)));\n"
          "arena.mutate(|mc, root| {{ let victim: Gc<Lock<u32>> = Gc::new(mc, Lock::new(7)); let b: GcBuilder<'_, &'static Lock<u32>> = GcBuilder::new(); {COERCE} let holder = b.write(mc, {VALUE}); root.set(mc, Some(holder)); }});\narena.finish_cycle();")
    ps.append(Probe("payload_variance/exploit/builder_shrunk_then_written", prog("", d7.format(COERCE="let b: GcBuilder<'_, &Lock<u32>> = b;", VALUE="victim.as_ref()")), "reject", group="payload_variance"))
    ps.append(Probe("payload_variance/exploit/twin", prog("", d7.format(COERCE="", VALUE="&*Box::leak(Box::new(Lock::new(1u32)))").replace("let victim: Gc<Lock<u32>> = Gc::new(mc, Lock::new(7)); ", "").replace("Gc<'_, &'_ Lock<u32>>", "Gc<'_, &'static Lock<u32>>")), "accept", group="payload_variance"))
    # ---- auto traits
    ps.append(Probe("auto/twin", prog("fn is_send<T: ?Sized + Send>() {}\nfn is_sync<T: ?Sized + Sync>() {}", "is_send::<u32>(); is_sync::<u32>();"), "accept", group="auto"))
    for aname, ty in AUTO_TYPES.items():
        ps.append(Probe(f"auto/{aname}/send", prog("fn is_send<T: ?Sized + Send>() {}", f"is_send::<{ty}>();"), "reject", group="auto"))
        ps.append(Probe(f"auto/{aname}/sync", prog("fn is_sync<T: ?Sized + Sync>() {}", f"is_sync::<{ty}>();"), "reject", group="auto"))
        ps.append(Probe(f"auto/{aname}/named_twin", prog("fn is_sized<T: Sized>() {}", f"is_sized::<{ty}>();"), "accept", group="auto"))
    # ---- smuggling a &'gc T into the root through a field the collector does not look at
    smug = {
        "require_static_field_with_bound": "#[derive(Collect)]\n#[collect(no_drop, bound = \"\")]\nstruct RX<'gc> { #[collect(require_static)] c: Cell<Option<&'gc Lock<u32>>>, g: Gc<'gc, Lock<u32>> }\n",
        "require_static_field": "#[derive(Collect)]\n#[collect(no_drop)]\nstruct RX<'gc> { #[collect(require_static)] c: Cell<Option<&'gc Lock<u32>>>, g: Gc<'gc, Lock<u32>> }\n",
        "require_static_type_with_bound": "#[derive(Collect)]\n#[collect(require_static, bound = \"\")]\nstruct RX<'gc> { c: Cell<Option<&'gc Lock<u32>>>, g: Gc<'gc, Lock<u32>> }\n",
        "plain_cell_field": "#[derive(Collect)]\n#[collect(no_drop)]\nstruct RX<'gc> { c: Cell<Option<&'gc Lock<u32>>>, g: Gc<'gc, Lock<u32>> }\n",
        "static_wrapper": "#[derive(Collect)]\n#[collect(no_drop)]\nstruct RX<'gc> { c: Static<Cell<Option<&'gc Lock<u32>>>>, g: Gc<'gc, Lock<u32>> }\n",
        "phantom_is_fine_twin": None,
    }
    for name, items in smug.items():
        if items is None:
            items = "#[derive(Collect)]\n#[collect(no_drop)]\nstruct RX<'gc> { c: Cell<Option<u32>>, p: PhantomData<&'gc ()>, g: Gc<'gc, Lock<u32>> }\n"
            body = "let mut arena = Arena::<Rootable![RX<'_>]>::new(|mc| RX { c: Cell::new(None), p: PhantomData, g: Gc::new(mc, Lock::new(1)) });\narena.mutate(|mc, root| { root.c.set(Some(root.g.get())); });\narena.finish_cycle();"
            ps.append(Probe(f"smuggle_ref_into_root/{name}", prog(items, body), "accept", group="smuggle"))
            continue
        cnew = "Static(Cell::new(None))" if name == "static_wrapper" else "Cell::new(None)"
        cset = "root.c.0.set" if name == "static_wrapper" else "root.c.set"
        body = f"let mut arena = Arena::<Rootable![RX<'_>]>::new(|mc| RX {{ c: {cnew}, g: Gc::new(mc, Lock::new(1)) }});\narena.mutate(|mc, root| {{ {cset}(Some(Gc::as_ref(root.g))); }});\n// a root type that is not Collect may hold anything (the arena can then never collect): the escape needs a collection call\narena.finish_cycle();"
        ps.append(Probe(f"smuggle_ref_into_root/{name}", prog(items, body), "reject", group="smuggle"))
    hasher = "#[derive(Clone)]\nstruct BH<'gc>(&'gc Lock<u32>);\nimpl<'gc> std::hash::BuildHasher for BH<'gc> { type Hasher = std::collections::hash_map::DefaultHasher; fn build_hasher(&self) -> Self::Hasher { Default::default() } }\n"
    for cname, cty, mk in (("HashMap", "std::collections::HashMap<u8, u8, BH<'gc>>", "std::collections::HashMap::with_hasher(BH(Gc::as_ref(g)))"), ("HashSet", "std::collections::HashSet<u8, BH<'gc>>", "std::collections::HashSet::with_hasher(BH(Gc::as_ref(g)))")):
        items = hasher + f"#[derive(Collect)]\n#[collect(no_drop)]\nstruct RX<'gc> {{ m: {cty}, g: Gc<'gc, Lock<u32>> }}\n"
        body = f"let mut arena = Arena::<Rootable![RX<'_>]>::new(|mc| {{ let g = Gc::new(mc, Lock::new(1)); RX {{ m: {mk}, g }} }});\narena.finish_cycle();"
        ps.append(Probe(f"smuggle_ref_into_root/hasher_in_{cname}", prog(items, body), "reject", group="smuggle"))
        twin_items = items.replace("struct BH<'gc>(&'gc Lock<u32>);", "struct BH<'gc>(u8, PhantomData<fn() -> &'gc ()>);").replace("m: " + cty, "m: " + cty.replace("BH<'gc>", "BH<'static>"))
        twin_body = body.replace("BH(Gc::as_ref(g))", "BH(0, PhantomData)")
        ps.append(Probe(f"smuggle_ref_into_root/hasher_in_{cname}/twin", prog(twin_items, twin_body), "accept", group="smuggle"))
    # ---- root-type shapes (known-finding family)
    for shape in SHAPES:
        for entry in ("new", "mutate", "mutate_root", "map_root"):
            for route in ("outer_var", "thread_local"):
                src = shape_prog(shape, entry, route)
                if src:
                    ps.append(Probe(f"implied-static/{shape}/{entry}/{route}", src, "known", group="implied-static", known_key=f"C12/implied-static/{shape}"))
    # ordinary root with the same program shape must be rejected (twin of the family: shows the hole is the root type)
    ord_src = prog(SHAPE_ITEMS, "let flag = Rc::new(Cell::new(false));\nlet mut out: Option<Gc<'static, P>> = None;\nlet arena = Arena::<Rootable![Gc<'_, P>]>::new(|mc| { let keep = Gc::new(mc, P(flag.clone())); out = Some(keep); keep });\n")
    ps.append(Probe("implied-static/ordinary_root_control", ord_src, "reject", group="implied-static"))
    # an arena whose root is `&'static Gc<'gc, T>` can be built (known finding) but NOT collected: the collection methods
    # need `&'static Gc<'gc, T>: Collect<'gc>` for every 'gc, which the `T: 'static` bound on `Collect for &'static T` refuses
    coll_src = prog(SHAPE_ITEMS, "let flag = Rc::new(Cell::new(false));\nlet mut arena = Arena::<Rootable![&'static Gc<'_, P>]>::new(|mc| { let keep = Gc::new(mc, P(flag.clone())); Box::leak(Box::new(keep)) });\narena.finish_cycle();\n")
    ps.append(Probe("implied-static/static_ref_gc/collecting_is_rejected", coll_src, "reject", group="implied-static"))
    coll2 = prog(SHAPE_ITEMS, "let flag = Rc::new(Cell::new(false));\nlet mut arena = Arena::<Rootable![(u8, &'static Gc<'_, P>)]>::new(|mc| { let keep = Gc::new(mc, P(flag.clone())); (0, &*Box::leak(Box::new(keep))) });\nlet _ = arena.mark_debt();\n")
    ps.append(Probe("implied-static/static_ref_gc/collecting_tuple_is_rejected", coll2, "reject", group="implied-static"))
    # collecting needs the root to be Collect for EVERY brand, not just for the 'static instantiation the arena stores
    general = {
        "static_wrapper_of_gc": ("Static<Gc<'_, u32>>", "Static(Gc::new(mc, 1u32))"),
        "cell_of_branded_ref": ("(Gc<'_, Lock<u32>>, Cell<Option<&'_ Lock<u32>>>)", "{ let g = Gc::new(mc, Lock::new(1u32)); (g, Cell::new(Some(Gc::as_ref(g)))) }"),
        "refcell_of_gc": ("RefCell<Vec<Gc<'_, u32>>>", "RefCell::new(vec![Gc::new(mc, 1u32)])"),
    }
    for gname, (rty, init) in general.items():
        for cname, call in (("finish_cycle", "arena.finish_cycle();"), ("collect_debt", "arena.collect_debt();"), ("finish_marking", "let _ = arena.finish_marking();"), ("mark_debt", "let _ = arena.mark_debt();"), ("cycle_debt", "arena.cycle_debt();")):
            ps.append(Probe(f"collect_needs_general_root/{gname}/{cname}", prog("", f"let mut arena = Arena::<Rootable![{rty}]>::new(|mc| {init});\n{call}"), "reject", group="general_root"))
    ps.append(Probe("collect_needs_general_root/twin", prog("", "let mut arena = Arena::<Rootable![(Gc<'_, Lock<u32>>, Static<Cell<u32>>)]>::new(|mc| (Gc::new(mc, Lock::new(1u32)), Static(Cell::new(1))));\narena.finish_cycle(); arena.collect_debt(); let _ = arena.finish_marking(); let _ = arena.mark_debt(); arena.cycle_debt();"), "accept", group="general_root"))
    return {
        "probes": ps,
        "rule": "grammar: branded thing {Gc, fresh Gc, GcWeak, &'gc T, &Mutation, &Finalization, DynamicRootSet, &Write, &Cell from unlock, &Root, Ref, RefMut, nested container} x escape route {return, return inside a closure / boxed closure / async block / iterator / Option<Box>, outer variable, outer Vec, outer RefCell, outer Rc<RefCell>, thread_local, static OnceLock, T: 'static bound, Box<dyn Any>, scoped thread by move / by share, channel} x entry point {new, try_new, mutate, mutate_root, map_root, try_map_root, finalize, rootless_mutate}; 13-15 cross-arena uses under nested mutate and nested finalize, root swap, foreign builder completion; 8 re-entrant collection calls from mutate and finalize; shrink/grow variance by value and behind & for 18 pointer/context/builder types; shrink/grow of the PAYLOAD lifetime of 7 written-to types (builders, Gc<Lock>, Gc<RefLock>) and the builder-covariance exploit; Send and Sync for 18 types incl. arenas with plain-data roots; root-type shapes implying 'gc: 'static x 4 entry points x 2 routes. Every negative has a positive twin; non-trivial = negative probes",
        "assumptions": ["pinned rustc 1.95 decides acceptance", "exhaustive over the stated grammar, not over all safe programs (the universally quantified reading of C12 is not established)"],
    }
