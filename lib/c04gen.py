"""C04 (compile-time half): "destructed exactly once" relies on the arena never receiving bitwise copies of values that have
destructors: every copy_slice / new_slice entry point must demand `Copy` elements."""
from probes import Probe
import c19gen

NEG = {
    "header+slice builder": "let src = [String::from(\"x\")]; let _g = GcSliceWithHeaderBuilder::<u8, String>::new(1).write_header(0).copy_slice(mc, &src);",
    "header+slice builder, non-Copy header too": "let src = [String::from(\"x\")]; let _g = GcSliceWithHeaderBuilder::<String, String>::new(1).write_header(String::new()).copy_slice(mc, &src);",
    "slice builder": "let src = [String::from(\"x\")]; let _g = GcSliceBuilder::<String>::new(1).copy_slice(mc, &src);",
    "new_slice": "let src = [String::from(\"x\")]; let _g = gc_arena::GcSlice::<String>::new_slice(mc, &src);",
    "new_slice_static": "let src = [String::from(\"x\")]; let _g = gc_arena::GcSlice::<String>::new_slice_static(mc, &src);",
}
POS = {
    "Copy elements, header with destructor": "let src = [1u32, 2]; let _g = GcSliceWithHeaderBuilder::<String, u32>::new(2).write_header(String::from(\"h\")).copy_slice(mc, &src);",
    "new_slice of Copy elements": "let _g = gc_arena::GcSlice::<u8>::new_slice(mc, &[1, 2, 3]);",
}


def generate(tier):
    ps = [Probe(f"copy_of_non_copy/{k}", c19gen.main_wrap(v), "reject", group="copy") for k, v in NEG.items()]
    ps += [Probe(f"copy_of_non_copy/twin/{k}", c19gen.main_wrap(v), "accept", group="copy") for k, v in POS.items()]
    return {"probes": ps, "rule": "every slice-copying constructor (copy_slice on both builders, new_slice, new_slice_static) called with elements that have destructors must be rejected; twins with Copy elements (and a header with a destructor) compile"}
