"""C15 — derive(Collect): enumerated type shapes (struct / tuple struct / unit / enums with mixed variants, 0..k fields
per variant over a field-type alphabet incl. generic parameters and require_static fields, modes, bound overrides,
gc_lifetime headers); for each shape x active variant a value with distinguishable pointers is traced with a recording
Trace and compared with the generator's own table; NEEDS_TRACE compared exactly. Plus rejection probes with twins."""
import itertools
from probes import Probe

HEAD = r'''#![allow(unused, non_camel_case_types, dead_code)]
use gc_arena::{Collect, Gc, GcWeak, Mutation, collect::Trace, arena::rootless_mutate};
use std::marker::PhantomData;

struct Rec { strong: Vec<usize>, weak: Vec<usize> }
impl<'gc> Trace<'gc> for Rec {
    fn trace_gc(&mut self, gc: Gc<'gc, ()>) { self.strong.push(Gc::as_ptr(gc) as usize); }
    fn trace_gc_weak(&mut self, gc: GcWeak<'gc, ()>) { self.weak.push(gc.as_ptr() as usize); }
}
type S<'gc> = Gc<'gc, u32>;
type W<'gc> = GcWeak<'gc, u32>;
fn sa<'gc>(g: S<'gc>) -> usize { Gc::as_ptr(g) as usize }
fn wa<'gc>(g: W<'gc>) -> usize { g.as_ptr() as usize }
struct NotCollect(u32);
fn check<'gc, C: Collect<'gc>>(fails: &mut Vec<String>, name: &str, v: &C, strong: &[usize], weak: &[usize], needs_trace: bool) {
    // the trace method itself must be exact (called directly) ...
    let mut rec = Rec { strong: vec![], weak: vec![] };
    v.trace(&mut rec);
    let (mut es, mut ew) = (strong.to_vec(), weak.to_vec());
    es.sort(); ew.sort(); rec.strong.sort(); rec.weak.sort();
    if rec.strong != es || rec.weak != ew {
        fails.push(format!("{name}: trace reported {} strong / {} weak pointers, the traced fields of the active variant hold {} / {}", rec.strong.len(), rec.weak.len(), es.len(), ew.len()));
    }
    // ... and so must what callers see through the NEEDS_TRACE gate
    let mut rec2 = Rec { strong: vec![], weak: vec![] };
    rec2.trace(v);
    rec2.strong.sort(); rec2.weak.sort();
    if rec2.strong != es || rec2.weak != ew {
        fails.push(format!("{name}: through the NEEDS_TRACE gate {} strong / {} weak pointers are reported, expected {} / {}", rec2.strong.len(), rec2.weak.len(), es.len(), ew.len()));
    }
    if C::NEEDS_TRACE != needs_trace {
        fails.push(format!("{name}: NEEDS_TRACE = {}, expected {} (disjunction over the traced field types)", C::NEEDS_TRACE, needs_trace));
    }
}
'''

# field type alphabet: name -> (type text, uses 'gc, value builder(i, tinst), strong ptrs(i, tinst), weak ptrs, needs_trace(tinst), attr)
def ft(name):
    return FT[name]


FT = {
    "G": ("Gc<'gc, u32>", True, lambda i, t: f"s[{i}]", lambda i, t: [f"s[{i}]"], lambda i, t: [], lambda t: True, ""),
    "W": ("GcWeak<'gc, u32>", True, lambda i, t: f"w[{i}]", lambda i, t: [], lambda i, t: [f"w[{i}]"], lambda t: True, ""),
    "U": ("u32", False, lambda i, t: f"{i}u32", lambda i, t: [], lambda i, t: [], lambda t: False, ""),
    "OG": ("Option<Gc<'gc, u32>>", True, lambda i, t: f"Some(s[{i}])", lambda i, t: [f"s[{i}]"], lambda i, t: [], lambda t: True, ""),
    "VG": ("Vec<Gc<'gc, u32>>", True, lambda i, t: f"vec![s[{i}], s[{i} + 8]]", lambda i, t: [f"s[{i}]", f"s[{i} + 8]"], lambda i, t: [], lambda t: True, ""),
    "T": ("T", False, lambda i, t: (f"s[{i}]" if t == "S" else f"{i}u8"), lambda i, t: ([f"s[{i}]"] if t == "S" else []), lambda i, t: [], lambda t: t == "S", ""),
    "RS": ("NotCollect", False, lambda i, t: f"NotCollect({i})", lambda i, t: [], lambda i, t: [], lambda t: False, "#[collect(require_static)] "),
    # a require_static field whose type COULD be traced: it must still be skipped
    "RSU": ("Vec<u32>", False, lambda i, t: f"vec![{i}u32]", lambda i, t: [], lambda i, t: [], lambda t: False, "#[collect(require_static)] "),
}


def variant_options(alphabet, maxf):
    opts = [("unit", ())]
    for n in range(0, maxf + 1):
        for combo in itertools.product(alphabet, repeat=n):
            if n == 0:
                opts.append(("named", ()))
                opts.append(("tuple", ()))
            else:
                opts.append(("named", combo))
                opts.append(("tuple", combo))
    return opts


def shape_code(sid, variants, is_enum, mode="no_drop", bound=None, add_drop=False):
    """returns (rust code of a test fn, number of checks)"""
    allf = [f for _, fs in variants for f in fs]
    uses_gc = any(FT[f][1] for f in allf)
    generic = "T" in allf
    params = []
    if uses_gc:
        params.append("'gc")
    if generic:
        params.append("T")
    gen = f"<{', '.join(params)}>" if params else ""
    attr = f"#[collect({mode}" + (f', bound = "{bound}"' if bound is not None else "") + ")]"
    lines = [f"fn shape_{sid}<'gc>(f: &mut Vec<String>, s: &[S<'gc>], w: &[W<'gc>]) {{", "    #[derive(Collect)]", f"    {attr}"]

    def fields_def(kind, fs):
        if kind == "unit":
            return ""
        if kind == "named":
            return " { " + ", ".join(f"{FT[f][6]}f{j}: {FT[f][0]}" for j, f in enumerate(fs)) + " }"
        return "(" + ", ".join(f"{FT[f][6]}{FT[f][0]}" for f in fs) + ")"

    if is_enum:
        lines.append(f"    enum X{gen} {{ " + ", ".join(f"V{k}{fields_def(kind, fs)}" for k, (kind, fs) in enumerate(variants)) + " }")
    else:
        kind, fs = variants[0]
        lines.append(f"    struct X{gen}{fields_def(kind, fs)}" + (";" if kind != "named" else ""))
    if add_drop:
        lines.append(f"    impl{gen} Drop for X{gen} {{ fn drop(&mut self) {{}} }}")
    nchecks = 0
    tinsts = ["S", "u8"] if generic else [None]
    for t in tinsts:
        targs = []
        if uses_gc:
            targs.append("'gc")
        if generic:
            targs.append("S<'gc>" if t == "S" else "u8")
        tg = f"::<{', '.join(targs)}>" if targs else ""
        nt = any(FT[f][5](t) for f in allf if not f.startswith("RS"))
        for k, (kind, fs) in enumerate(variants):
            vals, strong, weak = [], [], []
            for j, f in enumerate(fs):
                i = (k * 3 + j) % 8
                vals.append(FT[f][2](i, t))
                if not f.startswith("RS"):
                    strong += FT[f][3](i, t)
                    weak += FT[f][4](i, t)
            head = f"X::V{k}" if is_enum else "X"
            tyann = "X" + (f"<{', '.join(targs)}>" if targs else "")
            if kind == "unit":
                val = head
            elif kind == "named":
                val = head + " { " + ", ".join(f"f{j}: {v}" for j, v in enumerate(vals)) + " }"
            else:
                val = head + "(" + ", ".join(vals) + ")"
            st = ", ".join(f"sa({x})" for x in strong)
            wk = ", ".join(f"wa({x})" for x in weak)
            lines.append(f'    {{ let v: {tyann} = {val}; check(f, "shape {sid} [{describe(variants, is_enum, mode, bound)}] variant {k}{" T=" + t if t else ""}", &v, &[{st}], &[{wk}], {str(nt).lower()}); }}')
            nchecks += 1
    lines.append("}")
    return "\n".join(lines), nchecks


def describe(variants, is_enum, mode, bound):
    def v(kind, fs):
        if kind == "unit":
            return "unit"
        return ("{" if kind == "named" else "(") + ",".join(fs) + ("}" if kind == "named" else ")")
    return ("enum " if is_enum else "struct ") + " | ".join(v(k, fs) for k, fs in variants) + f" {mode}" + (f" bound={bound!r}".replace('"', "'") if bound is not None else "")


def shapes(tier):
    alpha = ["G", "W", "U", "OG", "VG", "T", "RS"]
    maxf = 3 if tier == "thorough" else 2
    out = []
    # structs: all kinds x all field combinations
    for kind, fs in variant_options(alpha, maxf):
        out.append(([(kind, fs)], False, "no_drop", None, False))
    # three and four fields over the alphabet that matters for binding bookkeeping (several require_static fields, then a pointer)
    for combo in itertools.product(["RS", "G", "U"], repeat=3):
        out.append(([("named", combo)], False, "no_drop", None, False))
        out.append(([("tuple", combo)], False, "no_drop", None, False))
        out.append(([("tuple", combo), ("tuple", ("G",))], True, "no_drop", None, False))
    for combo in itertools.product(["RS", "W"], repeat=4):
        out.append(([("tuple", combo)], False, "no_drop", None, False))
        out.append(([("unit", ()), ("named", combo)], True, "no_drop", None, False))
    # enums with one variant
    small = ["G", "W", "U", "RS", "T"]
    vopts = variant_options(small, 2)
    for kind, fs in vopts:
        out.append(([(kind, fs)], True, "no_drop", None, False))
    # enums with two variants: every variant option against a fixed set of partner variants, both orders
    partners = [("unit", ()), ("tuple", ("G",)), ("named", ("RS",)), ("tuple", ("U", "G")), ("tuple", ("RS", "W")), ("named", ("T",)), ("tuple", ("RSU", "G"))]
    for a in vopts:
        for b in partners:
            out.append(([a, b], True, "no_drop", None, False))
            out.append(([b, a], True, "no_drop", None, False))
    # enums with three variants: rotations of characteristic triples
    triples = [
        [("tuple", ("RS",)), ("tuple", ("G",)), ("tuple", ("W",))], [("tuple", ("U", "RS")), ("tuple", ("U", "G")), ("unit", ())],
        [("named", ("G", "RS")), ("named", ("RS", "G")), ("named", ("W", "W"))], [("unit", ()), ("unit", ()), ("tuple", ("G",))],
        [("tuple", ("T", "RS")), ("tuple", ("RS", "T")), ("tuple", ("G", "T"))], [("tuple", ("RSU", "RSU")), ("tuple", ("G", "W")), ("named", ("OG", "VG"))],
        [("tuple", ("U",)), ("tuple", ("U", "U")), ("tuple", ("U", "U"))],
    ]
    for tr in triples:
        for r in range(3):
            out.append((tr[r:] + tr[:r], True, "no_drop", None, False))
    if tier == "thorough":
        for a in vopts[::3]:
            for b in vopts[::5]:
                out.append(([a, b, ("tuple", ("G",))], True, "no_drop", None, False))
    # modes and bound overrides on a deterministic subsample
    base = list(out)
    for n, (vs, en, _, _, _) in enumerate(base):
        allf = [f for _, fs in vs for f in fs]
        if n % 5 == 0:
            out.append((vs, en, "unsafe_drop", None, n % 10 == 0))
        if "T" in allf and n % 3 == 0:
            out.append((vs, en, "no_drop", "where T: gc_arena::Collect<'gc>", False))
        if "T" not in allf and n % 7 == 0:
            out.append((vs, en, "no_drop", "", False))
    # type-level require_static: only 'static field types; nothing traced, NEEDS_TRACE false
    for vs in ([("named", ("U", "U"))], [("tuple", ("U",))], [("unit", ())]):
        out.append((vs, False, "require_static", None, False))
        out.append((vs, False, "require_static", "", False))
    out.append(([("tuple", ("U",)), ("unit", ()), ("named", ("U", "U"))], True, "require_static", None, False))
    return out


FIXED = r'''
fn fixed<'gc>(f: &mut Vec<String>, s: &[S<'gc>], w: &[W<'gc>]) {
    // two lifetime parameters with an explicit gc_lifetime, in both orders
    #[derive(Collect)]
    #[collect(no_drop, gc_lifetime = 'gc)]
    struct L1<'gc, 'a>(Gc<'gc, u32>, PhantomData<&'a ()>, GcWeak<'gc, u32>);
    check(f, "gc_lifetime first", &L1(s[0], PhantomData, w[0]), &[sa(s[0])], &[wa(w[0])], true);
    #[derive(Collect)]
    #[collect(no_drop, gc_lifetime = 'gc)]
    struct L2<'a, 'gc> { p: PhantomData<&'a ()>, g: Option<Gc<'gc, u32>>, #[collect(require_static)] n: NotCollect }
    check(f, "gc_lifetime second", &L2 { p: PhantomData, g: Some(s[1]), n: NotCollect(1) }, &[sa(s[1])], &[], true);
    #[derive(Collect)]
    #[collect(no_drop, gc_lifetime = 'gc)]
    enum L3<'a, 'b, 'gc> { A(PhantomData<(&'a (), &'b ())>), B(Gc<'gc, u32>, Gc<'gc, u32>) }
    check(f, "gc_lifetime third / variant A", &L3::A(PhantomData), &[], &[], true);
    check(f, "gc_lifetime third / variant B", &L3::B(s[2], s[3]), &[sa(s[2]), sa(s[3])], &[], true);
    // nested derived types
    #[derive(Collect)]
    #[collect(no_drop)]
    struct In<'gc>(Gc<'gc, u32>, u8);
    #[derive(Collect)]
    #[collect(no_drop)]
    struct Out<'gc> { a: In<'gc>, b: Vec<In<'gc>>, c: (u8, In<'gc>) }
    check(f, "nested", &Out { a: In(s[0], 0), b: vec![In(s[1], 1), In(s[2], 2)], c: (0, In(s[3], 3)) }, &[sa(s[0]), sa(s[1]), sa(s[2]), sa(s[3])], &[], true);
    // two generic parameters, both orders of tracing / non-tracing
    #[derive(Collect)]
    #[collect(no_drop)]
    struct Two<A, B>(A, B);
    check(f, "Two<Gc,u8>", &Two(s[4], 1u8), &[sa(s[4])], &[], true);
    check(f, "Two<u8,Gc>", &Two(1u8, s[5]), &[sa(s[5])], &[], true);
    check(f, "Two<u8,u8>", &Two(1u8, 2u8), &[], &[], false);
    check(f, "Two<GcWeak,Gc>", &Two(w[1], s[6]), &[sa(s[6])], &[wa(w[1])], true);
    // a field whose type has the SAME NAME as the deriving type (another module's type), by value and nested
    mod ast {
        use gc_arena::{Collect, Gc, GcWeak};
        #[derive(Collect)]
        #[collect(no_drop)]
        pub struct Expr<'gc> { pub g: Gc<'gc, u32>, pub w: GcWeak<'gc, u32> }
        #[derive(Collect)]
        #[collect(no_drop)]
        pub enum Kind<'gc> { Leaf(u8), Node(Gc<'gc, u32>) }
    }
    #[derive(Collect)]
    #[collect(no_drop)]
    struct Expr<'gc> { source: ast::Expr<'gc>, n: u32 }
    check(f, "same name, other module, by value", &Expr { source: ast::Expr { g: s[7], w: w[2] }, n: 1 }, &[sa(s[7])], &[wa(w[2])], true);
    #[derive(Collect)]
    #[collect(no_drop)]
    enum Kind<'gc> { A(Vec<ast::Kind<'gc>>), B(Option<ast::Kind<'gc>>, u8) }
    check(f, "same name, other module, in Vec", &Kind::A(vec![ast::Kind::Leaf(1), ast::Kind::Node(s[8])]), &[sa(s[8])], &[], true);
    check(f, "same name, other module, in Option", &Kind::B(Some(ast::Kind::Node(s[9])), 0), &[sa(s[9])], &[], true);
    // legitimately recursive types (the type mentions itself behind a pointer)
    #[derive(Collect)]
    #[collect(no_drop)]
    struct List<'gc> { next: Option<Gc<'gc, List<'gc>>>, kids: Vec<Gc<'gc, List<'gc>>>, up: Option<GcWeak<'gc, List<'gc>>> }
    {
        // (the recorder only needs addresses; build the nodes through the collector-free constructor of the caller's arena)
        let _ = std::mem::size_of::<List<'gc>>();
        if !<List<'gc> as Collect<'gc>>::NEEDS_TRACE { f.push("recursive List: NEEDS_TRACE is false".into()); }
    }
    // (a type that contains itself by value behind Box / Vec cannot derive Collect at all on the reference tree:
    //  its NEEDS_TRACE constant is cyclic, E0391 - not a valid shape)
}
'''


def neg_probes():
    H = "#![allow(unused)]\nuse gc_arena::{Collect, Gc, GcWeak, Mutation};\nstruct NotCollect(u32);\nstruct Borrowed<'a>(&'a u8);\nfn use_it<'gc, T: Collect<'gc>>() { let _ = T::NEEDS_TRACE; }\n"
    N = {}
    # missing / duplicated mode
    N["missing_mode/struct"] = "#[derive(Collect)]\nstruct X { a: u32 }"
    N["missing_mode/enum"] = "#[derive(Collect)]\nenum X { A(u32), B }"
    N["missing_mode/empty_attr"] = "#[derive(Collect)]\n#[collect()]\nstruct X { a: u32 }"
    N["missing_mode/only_bound"] = "#[derive(Collect)]\n#[collect(bound = \"\")]\nstruct X { a: u32 }"
    N["missing_mode/only_gc_lifetime"] = "#[derive(Collect)]\n#[collect(gc_lifetime = 'gc)]\nstruct X<'gc, 'a>(Gc<'gc, &'a u8>);"
    for a, b in (("no_drop", "unsafe_drop"), ("no_drop", "require_static"), ("unsafe_drop", "require_static"), ("no_drop", "no_drop"), ("require_static", "require_static")):
        N[f"two_modes/{a}+{b}/struct"] = f"#[derive(Collect)]\n#[collect({a}, {b})]\nstruct X {{ a: u32 }}"
        N[f"two_modes/{a}+{b}/enum"] = f"#[derive(Collect)]\n#[collect({a}, {b})]\nenum X {{ A, B(u32) }}"
        N[f"two_attributes/{a}+{b}"] = f"#[derive(Collect)]\n#[collect({a})]\n#[collect({b})]\nstruct X(u32);"
    N["two_attributes/field_first"] = "#[derive(Collect)]\n#[collect(no_drop)]\nstruct X { #[collect(require_static)] #[collect(require_static)] a: NotCollect, b: u32 }"
    N["two_attributes/field_last_enum"] = "#[derive(Collect)]\n#[collect(no_drop)]\nenum X { A, B(u32, #[collect(require_static)] #[collect(require_static)] NotCollect) }"
    N["two_attributes/mode+bound_split"] = "#[derive(Collect)]\n#[collect(no_drop)]\n#[collect(bound = \"\")]\nstruct X(u32);"
    N["unknown_option"] = "#[derive(Collect)]\n#[collect(no_drop, frobnicate)]\nstruct X(u32);"
    N["duplicate_bound"] = "#[derive(Collect)]\n#[collect(no_drop, bound = \"\", bound = \"\")]\nstruct X(u32);"
    N["duplicate_gc_lifetime"] = "#[derive(Collect)]\n#[collect(no_drop, gc_lifetime = 'gc, gc_lifetime = 'gc)]\nstruct X<'gc, 'a>(Gc<'gc, &'a u8>);"
    N["mode_with_value"] = "#[derive(Collect)]\n#[collect(no_drop = true)]\nstruct X(u32);"
    # no_drop + Drop
    N["no_drop_and_drop/struct"] = "#[derive(Collect)]\n#[collect(no_drop)]\nstruct X { a: u32 }\nimpl Drop for X { fn drop(&mut self) {} }"
    N["no_drop_and_drop/tuple_gc"] = "#[derive(Collect)]\n#[collect(no_drop)]\nstruct X<'gc>(Gc<'gc, u32>);\nimpl<'gc> Drop for X<'gc> { fn drop(&mut self) {} }"
    N["no_drop_and_drop/enum"] = "#[derive(Collect)]\n#[collect(no_drop)]\nenum X { A, B(u32) }\nimpl Drop for X { fn drop(&mut self) {} }"
    N["no_drop_and_drop/generic"] = "#[derive(Collect)]\n#[collect(no_drop)]\nstruct X<T>(T);\nimpl<T> Drop for X<T> { fn drop(&mut self) {} }"
    N["no_drop_and_drop/unit"] = "#[derive(Collect)]\n#[collect(no_drop)]\nstruct X;\nimpl Drop for X { fn drop(&mut self) {} }"
    N["no_drop_and_drop/with_bound_generic"] = "#[derive(Collect)]\n#[collect(no_drop, bound = \"where T: Collect<'gc>\")]\nstruct X<'gc, T>(Gc<'gc, u32>, T);\nimpl<'gc, T> Drop for X<'gc, T> { fn drop(&mut self) {} }"
    N["no_drop_and_drop/with_bound_enum"] = "#[derive(Collect)]\n#[collect(no_drop, bound = \"\")]\nenum X<'gc> { A(Gc<'gc, u32>), B }\nimpl<'gc> Drop for X<'gc> { fn drop(&mut self) {} }"
    N["no_drop_and_drop/with_gc_lifetime"] = "#[derive(Collect)]\n#[collect(no_drop, gc_lifetime = 'gc)]\nstruct X<'gc, 'a>(Gc<'gc, u32>, std::marker::PhantomData<&'a ()>);\nimpl<'gc, 'a> Drop for X<'gc, 'a> { fn drop(&mut self) {} }"
    N["no_drop_and_drop/with_bound"] = "#[derive(Collect)]\n#[collect(no_drop, bound = \"\")]\nstruct X(u32);\nimpl Drop for X { fn drop(&mut self) {} }"
    # require_static on something not 'static (checked at the use site)
    N["require_static_not_static/type_gc"] = "#[derive(Collect)]\n#[collect(require_static)]\nstruct X<'gc>(Gc<'gc, u32>);\nfn f<'gc>() { use_it::<'gc, X<'gc>>(); }"
    N["require_static_not_static/type_borrow"] = "#[derive(Collect)]\n#[collect(require_static)]\nstruct X<'a>(Borrowed<'a>);\nfn f<'gc, 'a>() { use_it::<'gc, X<'a>>(); }"
    N["require_static_not_static/type_generic_inst"] = "#[derive(Collect)]\n#[collect(require_static)]\nstruct X<T>(T);\nfn f<'gc>() { use_it::<'gc, X<Gc<'gc, u32>>>(); }"
    N["require_static_not_static/type_enum"] = "#[derive(Collect)]\n#[collect(require_static)]\nenum X<'gc> { A, B(GcWeak<'gc, u32>) }\nfn f<'gc>() { use_it::<'gc, X<'gc>>(); }"
    # (the lifetime parameter is deliberately NOT called 'gc: that name takes a different path through the derive)
    N["require_static_not_static/type_gc_lifetime_a"] = "#[derive(Collect)]\n#[collect(require_static)]\nstruct X<'a>(Gc<'a, u32>);\nfn f<'a>() { use_it::<'a, X<'a>>(); }"
    N["require_static_not_static/type_gc_lifetime_a_named"] = "#[derive(Collect)]\n#[collect(require_static)]\nstruct X<'a> { last: Gc<'a, u32>, n: u8 }\nfn f<'a>() { use_it::<'a, X<'a>>(); }"
    N["require_static_not_static/type_enum_lifetime_a"] = "#[derive(Collect)]\n#[collect(require_static)]\nenum X<'a> { A, B(GcWeak<'a, u32>) }\nfn f<'a>() { use_it::<'a, X<'a>>(); }"
    N["require_static_not_static/type_lifetime_and_type_param"] = "#[derive(Collect)]\n#[collect(require_static)]\nstruct X<'a, T>(Gc<'a, u32>, T);\nfn f<'a>() { use_it::<'a, X<'a, u8>>(); }"
    # a field type hidden behind a type-position macro: the derive cannot look inside, the bound must still be there
    N["require_static_not_static/field_type_macro"] = "macro_rules! slot { ($l:lifetime, $t:ty) => { Gc<$l, $t> }; }\n#[derive(Collect)]\n#[collect(no_drop)]\nstruct X<'gc> { #[collect(require_static)] hidden: slot!('gc, u32), n: u8 }\nfn f<'gc>() { use_it::<'gc, X<'gc>>(); }"
    N["require_static_not_static/field_type_macro_generic"] = "macro_rules! wrap { ($t:ty) => { Option<$t> }; }\n#[derive(Collect)]\n#[collect(no_drop)]\nstruct X<T> { #[collect(require_static)] hidden: wrap!(T) }\nfn f<'gc>() { use_it::<'gc, X<Gc<'gc, u32>>>(); }"
    N["require_static_not_static/field_type_alias"] = "type Slot<'l> = Gc<'l, u32>;\n#[derive(Collect)]\n#[collect(no_drop)]\nstruct X<'gc> { #[collect(require_static)] hidden: Slot<'gc> }\nfn f<'gc>() { use_it::<'gc, X<'gc>>(); }"
    N["require_static_not_static/type_with_bound_clone"] = "#[derive(Collect)]\n#[collect(require_static, bound = \"where T: Clone\")]\nstruct X<T>(T);\nfn f<'gc>() { use_it::<'gc, X<Gc<'gc, u32>>>(); }"
    N["require_static_not_static/type_with_bound_empty"] = "#[derive(Collect)]\n#[collect(require_static, bound = \"\")]\nstruct X<'gc>(Gc<'gc, u32>);\nfn f<'gc>() { use_it::<'gc, X<'gc>>(); }"
    for pos, body in (("first", "#[collect(require_static)] a: Borrowed<'a>, b: u32"), ("last", "b: u32, #[collect(require_static)] a: Borrowed<'a>"), ("only", "#[collect(require_static)] a: Borrowed<'a>")):
        N[f"require_static_not_static/field_{pos}"] = f"#[derive(Collect)]\n#[collect(no_drop)]\nstruct X<'a> {{ {body} }}\nfn f<'gc, 'a>() {{ use_it::<'gc, X<'a>>(); }}"
        N[f"require_static_not_static/field_{pos}_bound_empty"] = f"#[derive(Collect)]\n#[collect(no_drop, bound = \"\")]\nstruct X<'a> {{ {body} }}\nfn f<'gc, 'a>() {{ use_it::<'gc, X<'a>>(); }}"
    N["require_static_not_static/field_gc"] = "#[derive(Collect)]\n#[collect(no_drop)]\nstruct X<'gc> { #[collect(require_static)] a: Gc<'gc, u32> }\nfn f<'gc>() { use_it::<'gc, X<'gc>>(); }"
    N["require_static_not_static/field_gc_bound_empty"] = "#[derive(Collect)]\n#[collect(no_drop, bound = \"\")]\nstruct X<'gc> { #[collect(require_static)] a: Gc<'gc, u32> }\nfn f<'gc>() { use_it::<'gc, X<'gc>>(); }"
    N["require_static_not_static/field_generic_inst_bound"] = "#[derive(Collect)]\n#[collect(no_drop, bound = \"where T: Sized\")]\nstruct X<T> { #[collect(require_static)] a: std::cell::RefCell<Option<T>> }\nfn f<'gc>() { use_it::<'gc, X<Gc<'gc, u32>>>(); }"
    N["require_static_not_static/enum_field"] = "#[derive(Collect)]\n#[collect(no_drop)]\nenum X<'a> { A, B(u32, #[collect(require_static)] Borrowed<'a>) }\nfn f<'gc, 'a>() { use_it::<'gc, X<'a>>(); }"
    N["require_static_not_static/enum_field_bound_empty"] = "#[derive(Collect)]\n#[collect(unsafe_drop, bound = \"\")]\nenum X<'a> { A, B(u32, #[collect(require_static)] Borrowed<'a>) }\nfn f<'gc, 'a>() { use_it::<'gc, X<'a>>(); }"
    # attribute on an enum variant
    N["variant_attribute/first"] = "#[derive(Collect)]\n#[collect(no_drop)]\nenum X { #[collect(require_static)] A { a: u8 }, B }"
    N["variant_attribute/last"] = "#[derive(Collect)]\n#[collect(no_drop)]\nenum X { A, B, #[collect(require_static)] C(u8) }"
    N["variant_attribute/all_static_fields"] = "#[derive(Collect)]\n#[collect(no_drop)]\nenum X { A(u8), #[collect(require_static)] B(#[collect(require_static)] NotCollect) }"
    N["variant_attribute/empty_tuple"] = "#[derive(Collect)]\n#[collect(no_drop)]\nenum X { A(u8), #[collect(require_static)] B() }"
    N["variant_attribute/unit"] = "#[derive(Collect)]\n#[collect(unsafe_drop)]\nenum X { A(u8), #[collect(require_static)] B }"
    # field-level attribute other than require_static
    for opt in ("no_drop", "unsafe_drop", "invalid_arg", "bound = \\\"\\\"", "require_static, no_drop", "require_static = true"):
        key = opt.replace('\\"', "").replace(" ", "")
        N[f"bad_field_attribute/{key}"] = f"#[derive(Collect)]\n#[collect(no_drop)]\nstruct X {{ #[collect({opt.replace(chr(92), '')})] a: u8 }}"
    # a field whose type is not Collect
    N["field_not_collect/struct_first"] = "#[derive(Collect)]\n#[collect(no_drop)]\nstruct X { a: NotCollect, b: u32 }"
    N["field_not_collect/struct_last"] = "#[derive(Collect)]\n#[collect(no_drop)]\nstruct X { b: u32, a: NotCollect }"
    N["field_not_collect/tuple"] = "#[derive(Collect)]\n#[collect(unsafe_drop)]\nstruct X(u32, NotCollect);"
    N["field_not_collect/enum_first_variant"] = "#[derive(Collect)]\n#[collect(no_drop)]\nenum X { A(NotCollect), B(u32) }"
    N["field_not_collect/enum_last_variant"] = "#[derive(Collect)]\n#[collect(no_drop)]\nenum X { A, B { x: u32, y: NotCollect } }"
    N["field_not_collect/with_gc"] = "#[derive(Collect)]\n#[collect(no_drop)]\nstruct X<'gc> { g: Gc<'gc, u32>, a: NotCollect }"
    N["field_not_collect/generic_inst"] = "#[derive(Collect)]\n#[collect(no_drop)]\nstruct X<T>(T);\nfn f<'gc>() { use_it::<'gc, X<NotCollect>>(); }"
    N["field_not_collect/cell_gc"] = "#[derive(Collect)]\n#[collect(no_drop)]\nstruct X<'gc> { c: std::cell::Cell<Option<Gc<'gc, u32>>> }\nfn f<'gc>() { use_it::<'gc, X<'gc>>(); }"
    N["field_not_collect/ref_gc_lifetime"] = "#[derive(Collect)]\n#[collect(no_drop)]\nstruct X<'gc> { g: Gc<'gc, u32>, r: &'gc u32 }\nfn f<'gc>() { use_it::<'gc, X<'gc>>(); }"
    N["field_not_collect/ref_gc_lifetime_only_field"] = "#[derive(Collect)]\n#[collect(no_drop)]\nstruct X<'gc>(&'gc String);\nfn f<'gc>() { use_it::<'gc, X<'gc>>(); }"
    N["field_not_collect/ref_to_gc"] = "#[derive(Collect)]\n#[collect(no_drop)]\nstruct X<'gc> { r: &'gc Gc<'gc, u32> }\nfn f<'gc>() { use_it::<'gc, X<'gc>>(); }"
    N["field_not_collect/ref_in_enum"] = "#[derive(Collect)]\n#[collect(no_drop)]\nenum X<'gc> { A(Gc<'gc, u32>), B { r: &'gc u8 } }\nfn f<'gc>() { use_it::<'gc, X<'gc>>(); }"
    N["field_not_collect/mut_ref"] = "#[derive(Collect)]\n#[collect(no_drop)]\nstruct X<'gc>(Gc<'gc, u32>, &'gc mut u8);\nfn f<'gc>() { use_it::<'gc, X<'gc>>(); }"
    N["field_not_collect/raw_pointer"] = "#[derive(Collect)]\n#[collect(no_drop)]\nstruct X<'gc>(Gc<'gc, u32>, *const Gc<'gc, u32>);\nfn f<'gc>() { use_it::<'gc, X<'gc>>(); }"
    N["field_not_collect/bound_empty_still_checked"] = "#[derive(Collect)]\n#[collect(no_drop, bound = \"\")]\nstruct X { a: NotCollect }"
    # several lifetimes without gc_lifetime
    N["several_lifetimes/two"] = "#[derive(Collect)]\n#[collect(no_drop)]\nstruct X<'gc, 'a>(Gc<'gc, &'a u8>);"
    N["several_lifetimes/two_reversed"] = "#[derive(Collect)]\n#[collect(no_drop)]\nstruct X<'a, 'gc>(Gc<'gc, &'a u8>);"
    N["several_lifetimes/three"] = "#[derive(Collect)]\n#[collect(no_drop)]\nstruct X<'gc, 'a, 'b>(Gc<'gc, (&'a u8, &'b u8)>);"
    N["several_lifetimes/two_enum"] = "#[derive(Collect)]\n#[collect(unsafe_drop)]\nenum X<'gc, 'a> { A(Gc<'gc, &'a u8>), B }"
    N["several_lifetimes/two_with_type_param"] = "#[derive(Collect)]\n#[collect(no_drop)]\nstruct X<'gc, 'a, T>(Gc<'gc, &'a T>);"
    # wrong gc_lifetime: the pointer's brand is not the declared one
    N["wrong_gc_lifetime"] = "#[derive(Collect)]\n#[collect(no_drop, gc_lifetime = 'a)]\nstruct X<'gc, 'a>(Gc<'gc, u32>, std::marker::PhantomData<&'a ()>);\nfn f<'gc, 'a>() { use_it::<'a, X<'gc, 'a>>(); }"
    # derive on a union
    N["union"] = "#[derive(Collect)]\n#[collect(no_drop)]\nunion X { a: u32, b: u8 }"
    P = {}
    P["twin/no_drop_struct"] = "#[derive(Collect)]\n#[collect(no_drop)]\nstruct X { a: u32 }\nfn f<'gc>() { use_it::<'gc, X>(); }"
    P["twin/unsafe_drop_with_drop"] = "#[derive(Collect)]\n#[collect(unsafe_drop)]\nstruct X<'gc>(Gc<'gc, u32>);\nimpl<'gc> Drop for X<'gc> { fn drop(&mut self) {} }\nfn f<'gc>() { use_it::<'gc, X<'gc>>(); }"
    P["twin/require_static_type"] = "#[derive(Collect)]\n#[collect(require_static)]\nstruct X(NotCollect);\nimpl Drop for X { fn drop(&mut self) {} }\nfn f<'gc>() { use_it::<'gc, X>(); }"
    P["twin/require_static_type_generic_static_inst"] = "#[derive(Collect)]\n#[collect(require_static, bound = \"where T: Clone\")]\nstruct X<T>(T);\nfn f<'gc>() { use_it::<'gc, X<u8>>(); }"
    P["twin/require_static_field"] = "#[derive(Collect)]\n#[collect(no_drop)]\nstruct X<'gc> { #[collect(require_static)] a: NotCollect, g: Gc<'gc, u32> }\nfn f<'gc>() { use_it::<'gc, X<'gc>>(); }"
    P["twin/require_static_field_bound_empty"] = "#[derive(Collect)]\n#[collect(no_drop, bound = \"\")]\nstruct X<'gc> { #[collect(require_static)] a: NotCollect, g: Gc<'gc, u32> }\nfn f<'gc>() { use_it::<'gc, X<'gc>>(); }"
    P["twin/require_static_field_static_borrow"] = "#[derive(Collect)]\n#[collect(no_drop)]\nstruct X { #[collect(require_static)] a: Borrowed<'static> }\nfn f<'gc>() { use_it::<'gc, X>(); }"
    P["twin/gc_lifetime"] = "#[derive(Collect)]\n#[collect(no_drop, gc_lifetime = 'gc)]\nstruct X<'gc, 'a>(Gc<'gc, &'a u8>);\nfn f<'gc, 'a: 'gc>() { use_it::<'gc, X<'gc, 'a>>(); }"
    P["twin/require_static_field_type_macro_static"] = "macro_rules! wrap { ($t:ty) => { Option<$t> }; }\n#[derive(Collect)]\n#[collect(no_drop)]\nstruct X { #[collect(require_static)] hidden: wrap!(NotCollect) }\nfn f<'gc>() { use_it::<'gc, X>(); }"
    P["twin/require_static_type_lifetime_a_static_inst"] = "#[derive(Collect)]\n#[collect(require_static)]\nstruct X<'a>(Borrowed<'a>);\nfn f<'gc>() { use_it::<'gc, X<'static>>(); }"
    P["twin/enum_fields"] = "#[derive(Collect)]\n#[collect(no_drop)]\nenum X<'gc> { A { a: u8 }, B(Gc<'gc, u32>), C }\nfn f<'gc>() { use_it::<'gc, X<'gc>>(); }"
    P["twin/bound_override"] = "#[derive(Collect)]\n#[collect(no_drop, bound = \"where T: gc_arena::Collect<'gc>\")]\nstruct X<T>(T);\nfn f<'gc>() { use_it::<'gc, X<Gc<'gc, u32>>>(); }"
    P["twin/generic_default_bound"] = "#[derive(Collect)]\n#[collect(no_drop)]\nstruct X<T>(T);\nfn f<'gc>() { use_it::<'gc, X<Gc<'gc, u32>>>(); }"
    ps = []
    for k, v in N.items():
        ps.append(Probe(f"reject/{k}", H + v + "\nfn main() {}\n", "reject", group="reject/" + k.split("/")[0]))
    for k, v in P.items():
        ps.append(Probe(f"reject/{k}", H + v + "\nfn main() {}\n", "accept", group="reject/twin"))
    return ps


def generate(tier):
    sh = shapes(tier)
    nchecks = 0
    NCH = 12
    chunks = [[] for _ in range(NCH)]
    for sid, (vs, en, mode, bound, add_drop) in enumerate(sh):
        code, n = shape_code(sid, vs, en, mode, bound, add_drop)
        chunks[sid % NCH].append((sid, code))
        nchecks += n
    ps = []
    for ci, ch in enumerate(chunks):
        calls = "\n".join(f"    shape_{sid}(&mut f, &s, &w);" for sid, _ in ch)
        main = ("\nfn run<'gc>(mc: &Mutation<'gc>) -> Vec<String> {\n    let mut f: Vec<String> = vec![];\n    let s: Vec<S<'gc>> = (0..24u32).map(|i| Gc::new(mc, i)).collect();\n"
                "    let w: Vec<W<'gc>> = (100..124u32).map(|i| Gc::downgrade(Gc::new(mc, i))).collect();\n" + calls + ("\n    fixed(&mut f, &s, &w);" if ci == 0 else "") + "\n    f\n}\n"
                "fn main() {\n    let fails = rootless_mutate(|mc| run(mc));\n    for x in fails.iter().take(40) { println!(\"C15 violated: {x}\"); }\n    if !fails.is_empty() { println!(\"{} mismatches\", fails.len()); std::process::exit(1); }\n}\n")
        # every shape is a valid use of the derive (the whole program compiles on the reference tree)
        ps.append(Probe(f"shapes/{ci}", HEAD + "\n".join(code for _, code in ch) + (FIXED if ci == 0 else "") + main, "valid_run", group="shapes"))
    ps += neg_probes()
    return {
        "probes": ps,
        "rule": f"{len(sh)} derived type shapes in one generated program ({nchecks} shape x active-variant x generic-instantiation checks): all struct kinds (named / tuple / unit) x all field combinations up to {3 if tier == 'thorough' else 2} fields over {{Gc, GcWeak, u32, Option<Gc>, Vec<Gc>, generic T (instantiated with Gc and u8), require_static NotCollect}}; all one-variant enums; every variant option paired in both orders with 7 partner variants (incl. require_static fields at the same position as a pointer in the other variant); rotated three-variant enums; unsafe_drop (with and without a Drop impl) and bound overrides on subsamples; type-level require_static; gc_lifetime headers in every position; nested and two-parameter generics. Oracle: recording Trace multiset == pointers in non-require_static fields of the active variant, called directly and through the NEEDS_TRACE gate; NEEDS_TRACE == disjunction over traced field types. Rejection probes: missing / duplicated mode, duplicated attributes, unknown options, no_drop + Drop, require_static on non-'static types (type- and field-level, with and without bound overrides, first / last field, struct / enum), attributes on enum variants, bad field attributes, non-Collect fields in every position, several lifetimes without gc_lifetime, wrong gc_lifetime, union - each with positive twins. Non-trivial = every program except the twins",
        "level": "exploration",
        "shapes": len(sh),
        "container_instances": nchecks,
        "assumptions": ["pinned rustc 1.95", "field-type alphabet and shape bounds as stated in the rule"],
    }
