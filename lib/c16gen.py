"""C16 — provided Collect impls are exact in every type-parameter and element position.
One generated program per feature set builds every container with distinguishable pointers in exactly one position
(and in all positions), traces it with a recording implementation of the public Trace trait and compares multisets;
negative probes: types that must not be Collect<'gc>."""
from probes import Probe

HEAD = r'''#![allow(unused, unused_mut)]
use gc_arena::{Arena, Collect, Gc, GcWeak, Lock, RefLock, Rootable, Mutation, Static, collect::{Trace, DynCollect, dyn_collect}, lock::OnceLock, arena::rootless_mutate, SliceWithHeader, GcSliceWithHeaderBuilder};
trait Named<'gc>: 'gc + DynCollect<'gc> { fn name(&self) -> u8 { 1 } }
dyn_collect!(dyn Named<'gc>);
impl<'gc> Named<'gc> for (S<'gc>, W<'gc>) {}
impl<'gc> Named<'gc> for Vec<W<'gc>> {}
impl<'gc> Named<'gc> for (S<'gc>, W<'gc>, Vec<S<'gc>>, Option<W<'gc>>) {}
impl<'gc> Named<'gc> for W<'gc> {}
trait Tagged<'gc, T>: 'gc + DynCollect<'gc> { fn tag(&self) -> Option<T> { None } }
dyn_collect!(<T> dyn Tagged<'gc, T> where T: 'gc);
impl<'gc, T: 'gc> Tagged<'gc, T> for (S<'gc>, W<'gc>) {}
impl<'gc, T: 'gc> Tagged<'gc, T> for Vec<S<'gc>> {}
trait Tagged2<'gc, A, B>: 'gc + DynCollect<'gc> {}
dyn_collect!(<A, B> dyn Tagged2<'gc, A, B> where A: 'gc, B: 'gc);
impl<'gc, A: 'gc, B: 'gc> Tagged2<'gc, A, B> for W<'gc> {}
use std::collections::{BTreeMap, BTreeSet, BinaryHeap, HashMap, HashSet, LinkedList, VecDeque};
use std::rc::Rc;
use std::sync::Arc;

struct Rec { strong: Vec<usize>, weak: Vec<usize> }
impl<'gc> Trace<'gc> for Rec {
    fn trace_gc(&mut self, gc: Gc<'gc, ()>) { self.strong.push(Gc::as_ptr(gc) as usize); }
    fn trace_gc_weak(&mut self, gc: GcWeak<'gc, ()>) { self.weak.push(gc.as_ptr() as usize); }
}
type S<'gc> = Gc<'gc, u32>;
type W<'gc> = GcWeak<'gc, u32>;
fn sa<'gc>(g: S<'gc>) -> usize { Gc::as_ptr(g) as usize }
fn wa<'gc>(g: W<'gc>) -> usize { g.as_ptr() as usize }
static mut CASES: u32 = 0;
fn check<'gc, C: Collect<'gc> + ?Sized>(fails: &mut Vec<String>, name: &str, v: &C, strong: &[usize], weak: &[usize], any_param_traces: bool) {
    let mut rec = Rec { strong: vec![], weak: vec![] };
    // (a) through the NEEDS_TRACE gate of Trace::trace, as every caller does
    if C::NEEDS_TRACE { v.trace(&mut rec); }
    let (mut es, mut ew) = (strong.to_vec(), weak.to_vec());
    es.sort(); ew.sort(); rec.strong.sort(); rec.weak.sort();
    if rec.strong != es || rec.weak != ew {
        fails.push(format!("{name}: traced {} strong / {} weak pointers, the value holds {} / {}{}", rec.strong.len(), rec.weak.len(), es.len(), ew.len(), if !C::NEEDS_TRACE { " (NEEDS_TRACE is false)" } else { "" }));
    }
    if any_param_traces && !C::NEEDS_TRACE {
        fails.push(format!("{name}: NEEDS_TRACE is false although a type parameter needs tracing"));
    }
}
macro_rules! chk {
    ($f:ident, $name:expr, $v:expr, [$($s:expr),*], [$($w:expr),*], $nt:expr) => {{
        let v = $v;
        check(&mut $f, $name, &v, &[$(sa($s)),*], &[$(wa($w)),*], $nt);
    }};
}
macro_rules! chkr {
    ($f:ident, $name:expr, $v:expr, [$($s:expr),*], [$($w:expr),*], $nt:expr) => {{
        check(&mut $f, $name, $v, &[$(sa($s)),*], &[$(wa($w)),*], $nt);
    }};
}
'''


def body(optional, std=True):
    if optional is True:
        optional = {'hashbrown', 'indexmap', 'slotmap', 'smallvec', 'enum_map'}
    optional = optional or set()
    L = []
    a = L.append
    a("fn run<'gc>(mc: &Mutation<'gc>, s: Vec<S<'gc>>, w: Vec<W<'gc>>) -> Vec<String> {")
    a("    let mut f: Vec<String> = vec![];")
    # pointers themselves
    a('    chk!(f, "Gc", s[0], [s[0]], [], true);')
    a('    chk!(f, "GcWeak", w[0], [], [w[0]], true);')
    # Option / Result
    a('    chk!(f, "Option<Gc>/Some", Some(s[1]), [s[1]], [], true);')
    a('    chk!(f, "Option<Gc>/None", None::<S>, [], [], true);')
    a('    chk!(f, "Option<GcWeak>/Some", Some(w[1]), [], [w[1]], true);')
    a('    chk!(f, "Result<Gc,u8>/Ok", Ok::<S, u8>(s[2]), [s[2]], [], true);')
    a('    chk!(f, "Result<Gc,u8>/Err", Err::<S, u8>(3), [], [], true);')
    a('    chk!(f, "Result<u8,Gc>/Err", Err::<u8, S>(s[3]), [s[3]], [], true);')
    a('    chk!(f, "Result<u8,Gc>/Ok", Ok::<u8, S>(3), [], [], true);')
    a('    chk!(f, "Result<u8,GcWeak>/Err", Err::<u8, W>(w[3]), [], [w[3]], true);')
    a('    chk!(f, "Result<GcWeak,Gc>/Ok", Ok::<W, S>(w[2]), [], [w[2]], true);')
    a('    chk!(f, "Result<GcWeak,Gc>/Err", Err::<W, S>(s[4]), [s[4]], [], true);')
    # tuples: every arity x every position, strong and weak, and all positions
    for n in range(1, 17):
        for pos in range(n):
            for kind, pool, se, we in (("Gc", "s", "[s[{i}]]", "[]"), ("GcWeak", "w", "[]", "[w[{i}]]")):
                elems = ", ".join((f"{pool}[{pos}]" if i == pos else f"{i}u8") for i in range(n))
                a(f'    chk!(f, "tuple{n}/{kind}@{pos}", ({elems},), {se.format(i=pos)}, {we.format(i=pos)}, true);')
        allp = ", ".join(f"s[{i}]" for i in range(n))
        a(f'    chk!(f, "tuple{n}/all", ({allp},), [{allp}], [], true);')
    # arrays, Vec, VecDeque, LinkedList, Box<[T]>, sizes 0..3, strong and weak, each position distinct
    for n in range(0, 4):
        sp = ", ".join(f"s[{i}]" for i in range(n))
        wp = ", ".join(f"w[{i}]" for i in range(n))
        a(f'    chk!(f, "[Gc;{n}]", [{sp}] as [S; {n}], [{sp}], [], true);')
        a(f'    chk!(f, "[GcWeak;{n}]", [{wp}] as [W; {n}], [], [{wp}], true);')
        a(f'    chk!(f, "Vec<Gc>/{n}", vec![{sp}] as Vec<S>, [{sp}], [], true);')
        a(f'    chk!(f, "Vec<GcWeak>/{n}", vec![{wp}] as Vec<W>, [], [{wp}], true);')
        a(f'    chkr!(f, "[Gc]/{n}", &*(vec![{sp}] as Vec<S>).into_boxed_slice(), [{sp}], [], true);')
        a(f'    chk!(f, "Box<[Gc]>/{n}", (vec![{sp}] as Vec<S>).into_boxed_slice(), [{sp}], [], true);')
        a(f'    chk!(f, "VecDeque<Gc>/{n}", VecDeque::from(vec![{sp}] as Vec<S>), [{sp}], [], true);')
        a(f'    chk!(f, "LinkedList<Gc>/{n}", LinkedList::from_iter(vec![{sp}] as Vec<S>), [{sp}], [], true);')
        a(f'    chk!(f, "LinkedList<GcWeak>/{n}", LinkedList::from_iter(vec![{wp}] as Vec<W>), [], [{wp}], true);')
        a(f'    chk!(f, "BinaryHeap<Gc>/{n}", BinaryHeap::from(vec![{sp}] as Vec<S>), [{sp}], [], true);')
        a(f'    chk!(f, "BTreeSet<Gc>/{n}", BTreeSet::from_iter(vec![{sp}] as Vec<S>), [{sp}], [], true);')
        a(f'    chk!(f, "HashSet<Gc>/{n}", HashSet::<S>::from_iter(vec![{sp}] as Vec<S>), [{sp}], [], true);')
        kv = ", ".join(f"(s[{i}], {i}u8)" for i in range(n))
        vk = ", ".join(f"({i}u8, s[{i}])" for i in range(n))
        vkw = ", ".join(f"({i}u8, w[{i}])" for i in range(n))
        both = ", ".join(f"(s[{i}], s[{i + 8}])" for i in range(n))
        bothp = ", ".join([f"s[{i}]" for i in range(n)] + [f"s[{i + 8}]" for i in range(n)])
        for m, mk in (("BTreeMap", "BTreeMap::from_iter"), ("HashMap", "HashMap::<_, _>::from_iter")):
            a(f'    chk!(f, "{m}<Gc,u8>/{n}", {mk}(vec![{kv}] as Vec<(S, u8)>), [{sp}], [], true);')
            a(f'    chk!(f, "{m}<u8,Gc>/{n}", {mk}(vec![{vk}] as Vec<(u8, S)>), [{sp}], [], true);')
            a(f'    chk!(f, "{m}<u8,GcWeak>/{n}", {mk}(vec![{vkw}] as Vec<(u8, W)>), [], [{wp}], true);')
            a(f'    chk!(f, "{m}<Gc,Gc>/{n}", {mk}(vec![{both}] as Vec<(S, S)>), [{bothp}], [], true);')
    # VecDeque in wrapped states
    a("    { let mut d: VecDeque<S> = VecDeque::with_capacity(4); d.push_back(s[0]); d.push_back(s[1]); d.push_front(s[2]); d.push_front(s[3]);")
    a('      let wrapped = d.as_slices().1.len() > 0; chk!(f, "VecDeque<Gc>/wrapped_by_push_front", d, [s[0], s[1], s[2], s[3]], [], true); if !wrapped { f.push("harness: deque did not wrap".into()); } }')
    a("    { let mut d: VecDeque<S> = VecDeque::with_capacity(4); for i in 0..4 { d.push_back(s[i]); } d.pop_front(); d.pop_front(); d.push_back(s[4]); d.push_back(s[5]);")
    a('      let wrapped = d.as_slices().1.len() > 0; chk!(f, "VecDeque<Gc>/wrapped_fifo", d, [s[2], s[3], s[4], s[5]], [], true); if !wrapped { f.push("harness: fifo deque did not wrap".into()); } }')
    a("    { let mut d: VecDeque<W> = VecDeque::with_capacity(4); d.push_back(w[0]); d.push_front(w[1]); d.push_front(w[2]);")
    a('      chk!(f, "VecDeque<GcWeak>/wrapped", d, [], [w[0], w[1], w[2]], true); }')
    # smart pointers and locks
    a('    chk!(f, "Box<Gc>", Box::new(s[5]), [s[5]], [], true);')
    a('    chk!(f, "Box<GcWeak>", Box::new(w[5]), [], [w[5]], true);')
    a('    chk!(f, "Rc<Gc>", Rc::new(s[6]), [s[6]], [], true);')
    a('    chk!(f, "Rc<[Gc]>", Rc::<[S]>::from(vec![s[6], s[7]]), [s[6], s[7]], [], true);')
    a('    chk!(f, "Arc<Gc>", Arc::new(s[7]), [s[7]], [], true);')
    a('    chk!(f, "Arc<GcWeak>", Arc::new(w[7]), [], [w[7]], true);')
    a('    chk!(f, "Lock<Gc>", Lock::new(s[8]), [s[8]], [], true);')
    a('    chk!(f, "Lock<Option<GcWeak>>", Lock::new(Some(w[8])), [], [w[8]], true);')
    a('    chk!(f, "RefLock<Gc>", RefLock::new(s[9]), [s[9]], [], true);')
    a('    chk!(f, "RefLock<Vec<GcWeak>>", RefLock::new(vec![w[9], w[10]]), [], [w[9], w[10]], true);')
    a('    chk!(f, "OnceLock<Gc>/unset", OnceLock::<S>::new(), [], [], true);')
    a('    { let o = OnceLock::<S>::new(); let g = Gc::new(mc, o); let _ = g.set(mc, s[10]); chkr!(f, "OnceLock<Gc>/set", &*g, [s[10]], [], true); }')
    a('    { let o = OnceLock::<W>::new(); let g = Gc::new(mc, o); let _ = g.set(mc, w[11]); chkr!(f, "OnceLock<GcWeak>/set", &*g, [], [w[11]], true); }')
    # SliceWithHeader: header and each element
    for n in range(0, 4):
        sp = ", ".join(f"s[{i + 1}]" for i in range(n))
        a(f'    {{ let g = GcSliceWithHeaderBuilder::<S, S>::new({n}).write_header(s[0]).write_slice_with(mc, |i| s[i + 1]); chkr!(f, "SliceWithHeader<Gc,Gc>/{n}", &*g, [s[0]{", " if n else ""}{sp}], [], true); }}')
        a(f'    {{ let g = GcSliceWithHeaderBuilder::<u8, S>::new({n}).write_header(0).write_slice_with(mc, |i| s[i + 1]); chkr!(f, "SliceWithHeader<u8,Gc>/{n}", &*g, [{sp}], [], true); }}')
        a(f'    {{ let g = GcSliceWithHeaderBuilder::<W, u8>::new({n}).write_header(w[0]).write_slice_with(mc, |i| 0u8); chkr!(f, "SliceWithHeader<GcWeak,u8>/{n}", &*g, [], [w[0]], true); }}')
    # object-safe tracing path (DynCollect / dyn_collect!)
    a('    { let b: Box<dyn Named<\'gc> + \'gc> = Box::new((s[0], w[0], vec![s[1]], Some(w[1]))); chkr!(f, "dyn Named (DynCollect path)", &*b, [s[0], s[1]], [w[0], w[1]], true); }')
    a('    { let b: Box<dyn Named<\'gc> + \'gc> = Box::new(w[2]); chk!(f, "Box<dyn Named>/weak_only", b, [], [w[2]], true); }')
    a('    { let b: Box<dyn DynCollect<\'gc>> = Box::new((1u8, String::new())); chkr!(f, "dyn DynCollect (static contents)", &*b, [], [], false); }')
    a('    { let b: Box<dyn Named<\'gc> + \'gc> = Box::new((s[2], w[3])); chk!(f, "Box<dyn Named> via dyn_collect!", b, [s[2]], [w[3]], true); }')
    a('    { let b: Rc<dyn Named<\'gc> + \'gc> = Rc::new(vec![w[4], w[5]]); chk!(f, "Rc<dyn Named> via dyn_collect!", b, [], [w[4], w[5]], true); }')
    # the generic arm of dyn_collect!
    a('    { let b: Box<dyn Tagged<\'gc, u8> + \'gc> = Box::new((s[2], w[3])); chk!(f, "Box<dyn Tagged<u8>> via generic dyn_collect!", b, [s[2]], [w[3]], true); }')
    a('    { let b: Rc<dyn Tagged<\'gc, String> + \'gc> = Rc::new(vec![s[3], s[4]]); chk!(f, "Rc<dyn Tagged<String>> via generic dyn_collect!", b, [s[3], s[4]], [], true); }')
    a('    { let b: Box<dyn Tagged2<\'gc, u8, S<\'gc>> + \'gc> = Box::new(w[6]); chk!(f, "Box<dyn Tagged2<u8,Gc>> via generic dyn_collect!", b, [], [w[6]], true); }')
    # a RefLock that is mutably borrowed while it is traced must not be skipped silently (the original panics, which re-queues the object)
    a('    { let g = Gc::new(mc, RefLock::new(s[11])); let guard = g.borrow_mut(mc); let mut rec = Rec { strong: vec![], weak: vec![] };')
    a('      let r = std::panic::catch_unwind(std::panic::AssertUnwindSafe(|| { Collect::trace(&*g, &mut rec); })); drop(guard);')
    a('      if r.is_ok() && rec.strong != vec![sa(s[11])] { f.push("RefLock<Gc>/mutably_borrowed: trace returned normally without reporting the pointer held by the borrowed lock".into()); } }')
    # nestings
    a('    chk!(f, "Vec<Option<Gc>>", vec![Some(s[0]), None, Some(s[1])], [s[0], s[1]], [], true);')
    a('    chk!(f, "Option<Vec<GcWeak>>", Some(vec![w[0], w[1]]), [], [w[0], w[1]], true);')
    a('    chk!(f, "(Vec<Gc>,Option<GcWeak>)", (vec![s[2]], Some(w[2])), [s[2]], [w[2]], true);')
    a('    chk!(f, "Box<Result<(u8,Gc),[GcWeak;2]>>/Ok", Box::new(Ok::<(u8, S), [W; 2]>((1, s[3]))), [s[3]], [], true);')
    a('    chk!(f, "Box<Result<(u8,Gc),[GcWeak;2]>>/Err", Box::new(Err::<(u8, S), [W; 2]>([w[3], w[4]])), [], [w[3], w[4]], true);')
    a('    chk!(f, "HashMap<u8,Vec<Gc>>", HashMap::<u8, Vec<S>>::from_iter([(1u8, vec![s[0], s[1]]), (2, vec![s[2]])]), [s[0], s[1], s[2]], [], true);')
    a('    chk!(f, "duplicates", vec![s[0], s[0], s[0]], [s[0], s[0], s[0]], [], true);')
    if not std:
        L[:] = [l for l in L if "HashMap" not in l and "HashSet" not in l]
    if optional:
        for n in range(0, 4):
            sp = ", ".join(f"s[{i}]" for i in range(n))
            wp = ", ".join(f"w[{i}]" for i in range(n))
            kv = ", ".join(f"(s[{i}], {i}u8)" for i in range(n))
            vk = ", ".join(f"({i}u8, s[{i}])" for i in range(n))
            vkw = ", ".join(f"({i}u8, w[{i}])" for i in range(n))
            for m, mk in (("hashbrown::HashMap", "hashbrown::HashMap::<_, _, std::collections::hash_map::RandomState>::from_iter"), ("indexmap::IndexMap", "indexmap::IndexMap::<_, _, std::collections::hash_map::RandomState>::from_iter")):
                a(f'    chk!(f, "{m}<Gc,u8>/{n}", {mk}(vec![{kv}] as Vec<(S, u8)>), [{sp}], [], true);')
                a(f'    chk!(f, "{m}<u8,Gc>/{n}", {mk}(vec![{vk}] as Vec<(u8, S)>), [{sp}], [], true);')
                a(f'    chk!(f, "{m}<u8,GcWeak>/{n}", {mk}(vec![{vkw}] as Vec<(u8, W)>), [], [{wp}], true);')
            a(f'    chk!(f, "hashbrown::HashSet<Gc>/{n}", hashbrown::HashSet::<S, std::collections::hash_map::RandomState>::from_iter(vec![{sp}] as Vec<S>), [{sp}], [], true);')
            a(f'    chk!(f, "indexmap::IndexSet<Gc>/{n}", indexmap::IndexSet::<S, std::collections::hash_map::RandomState>::from_iter(vec![{sp}] as Vec<S>), [{sp}], [], true);')
            a(f'    {{ let mut t = hashbrown::HashTable::<S>::new(); for (i, x) in (vec![{sp}] as Vec<S>).into_iter().enumerate() {{ t.insert_unique(i as u64, x, |_| 0); }} chk!(f, "hashbrown::HashTable<Gc>/{n}", t, [{sp}], [], true); }}')
            a(f'    {{ let mut t = hashbrown::HashTable::<W>::new(); for (i, x) in (vec![{wp}] as Vec<W>).into_iter().enumerate() {{ t.insert_unique(i as u64, x, |_| 0); }} chk!(f, "hashbrown::HashTable<GcWeak>/{n}", t, [], [{wp}], true); }}')
            a(f'    {{ let mut m = slotmap::SlotMap::<slotmap::DefaultKey, S>::new(); for x in vec![{sp}] as Vec<S> {{ m.insert(x); }} chk!(f, "SlotMap<Gc>/{n}", m, [{sp}], [], true); }}')
            a(f'    {{ let mut m = slotmap::SlotMap::<slotmap::DefaultKey, W>::new(); for x in vec![{wp}] as Vec<W> {{ m.insert(x); }} chk!(f, "SlotMap<GcWeak>/{n}", m, [], [{wp}], true); }}')
            a(f'    chk!(f, "SmallVec<[Gc;2]>/{n}", smallvec::SmallVec::<[S; 2]>::from_vec(vec![{sp}] as Vec<S>), [{sp}], [], true);')
            a(f'    chk!(f, "SmallVec<[GcWeak;2]>/{n}", smallvec::SmallVec::<[W; 2]>::from_iter(vec![{wp}] as Vec<W>), [], [{wp}], true);')
            a(f'    chk!(f, "SmallVec<[Gc;0]>/{n}", smallvec::SmallVec::<[S; 0]>::from_vec(vec![{sp}] as Vec<S>), [{sp}], [], true);')
            a(f'    chk!(f, "SmallVec<[GcWeak;0]>/{n}", smallvec::SmallVec::<[W; 0]>::from_iter(vec![{wp}] as Vec<W>), [], [{wp}], true);')
            a(f'    chk!(f, "SmallVec<[Option<Gc>;1]>/{n}", smallvec::SmallVec::<[Option<S>; 1]>::from_iter((vec![{sp}] as Vec<S>).into_iter().map(Some)), [{sp}], [], true);')
        a('    { let mut m = slotmap::SlotMap::<slotmap::DefaultKey, S>::new(); let k0 = m.insert(s[0]); let _k1 = m.insert(s[1]); m.remove(k0); m.insert(s[2]); chk!(f, "SlotMap<Gc>/after_remove", m, [s[1], s[2]], [], true); }')
        a('    chk!(f, "EnumMap<bool,Gc>", enum_map::EnumMap::<bool, S>::from_array([s[0], s[1]]), [s[0], s[1]], [], true);')
        a('    chk!(f, "EnumMap<bool,Option<GcWeak>>", enum_map::EnumMap::<bool, Option<W>>::from_array([Some(w[0]), None]), [], [w[0]], true);')
        a('    chk!(f, "EnumMap<u8,Option<Gc>>/last", { let mut m = enum_map::EnumMap::<u8, Option<S>>::default(); m[255] = Some(s[3]); m[0] = Some(s[4]); m }, [s[3], s[4]], [], true);')
    if optional and optional != {'hashbrown', 'indexmap', 'slotmap', 'smallvec', 'enum_map'}:
        keep = {"hashbrown": "hashbrown::", "indexmap": "indexmap::", "slotmap": "slotmap::", "smallvec": "smallvec::", "enum_map": "enum_map::"}
        drop = [v for k, v in keep.items() if k not in optional]
        L[:] = [l for l in L if not any(d in l for d in drop)]
    a("    f")
    a("}")
    a(r'''
fn main() {
    // (1) fresh targets, no collector running
    let mut fails = rootless_mutate(|mc| run(mc, (0..24u32).map(|i| Gc::new(mc, i)).collect(), (100..124u32).map(|i| Gc::downgrade(Gc::new(mc, i))).collect()));
    // (2) - (4) the same checks with targets the collector has ALREADY MARKED in the running cycle (an impl must report
    // a pointer whatever the colour of its target: a user-written Trace is not the collector's marker), mid-sweep, and
    // after a cycle
    for situation in 0..3u8 {
        let mut arena = Arena::<Rootable![(Vec<Gc<'_, u32>>, Vec<Gc<'_, u32>>)]>::new(|mc| ((0..24u32).map(|i| Gc::new(mc, i)).collect(), (100..124u32).map(|i| Gc::new(mc, i)).collect()));
        match situation {
            0 => { arena.finish_marking(); }
            1 => { arena.finish_marking().unwrap().start_sweeping(); }
            _ => { arena.finish_cycle(); arena.finish_marking(); }
        }
        let more = arena.mutate(|mc, root| run(mc, root.0.clone(), root.1.iter().map(|g| Gc::downgrade(*g)).collect()));
        fails.extend(more.into_iter().map(|x| format!("[targets marked, situation {situation}] {x}")));
    }
    for x in fails.iter().take(60) { println!("C16 violated: {x}"); }
    if !fails.is_empty() { std::process::exit(1); }
}
''')
    return "\n".join(L)


SURVIVAL = r'''#![allow(unused)]
use gc_arena::{Arena, Collect, Gc, GcWeak, Lock, RefLock, Rootable, Mutation, lock::OnceLock, GcSlice, GcSliceWithHeader, GcSliceBuilder, GcSliceWithHeaderBuilder, collect::{DynCollect, dyn_collect}};
use std::collections::*;
use std::{rc::Rc, sync::Arc, cell::Cell};
trait Holds<'gc>: 'gc + DynCollect<'gc> {}
dyn_collect!(dyn Holds<'gc>);
impl<'gc> Holds<'gc> for (u8, G<'gc>) {}
thread_local! { static DROPS: Cell<u32> = const { Cell::new(0) }; }
#[derive(Collect)]
#[collect(require_static)]
struct Tok(u32);
impl Drop for Tok { fn drop(&mut self) { DROPS.with(|d| d.set(d.get() + 1)); } }
type G<'gc> = Gc<'gc, Tok>;
#[derive(Collect)]
#[collect(no_drop)]
struct Root<'gc> {
    opt: Option<G<'gc>>, res: Result<u8, G<'gc>>, tup: (u8, u8, G<'gc>), arr: [G<'gc>; 2], bx: Box<G<'gc>>, rc: Rc<G<'gc>>, arc: Arc<G<'gc>>, vec: Vec<G<'gc>>, dq: VecDeque<G<'gc>>,
    ll: LinkedList<G<'gc>>, bm: BTreeMap<u8, G<'gc>>, hm: HashMap<u8, G<'gc>>, lock: Lock<Option<G<'gc>>>, rl: RefLock<Vec<G<'gc>>>, tup16: (u8, u8, u8, u8, u8, u8, u8, u8, u8, u8, u8, u8, u8, u8, u8, G<'gc>),
    // containers that are themselves Gc allocations: traced only if the ALLOCATION says it needs tracing
    gvec: Gc<'gc, Vec<G<'gc>>>, gopt: Gc<'gc, Option<G<'gc>>>, garr: Gc<'gc, [G<'gc>; 2]>, gtup: Gc<'gc, (u8, G<'gc>)>, glock: Gc<'gc, Lock<Option<G<'gc>>>>, grl: Gc<'gc, RefLock<Vec<G<'gc>>>>,
    gslice: GcSlice<'gc, G<'gc>>, gslice1: GcSlice<'gc, G<'gc>>, gswh_elems: GcSliceWithHeader<'gc, u8, G<'gc>>, gswh_unit_header: GcSliceWithHeader<'gc, (), G<'gc>>, gswh_header: GcSliceWithHeader<'gc, G<'gc>, u8>, gswh_header_empty: GcSliceWithHeader<'gc, G<'gc>, u8>,
    gunsized: Gc<'gc, [G<'gc>]>, gdyn: Gc<'gc, Box<dyn Holds<'gc> + 'gc>>, gbox: Gc<'gc, Box<G<'gc>>>, ggc: Gc<'gc, Gc<'gc, G<'gc>>>,
}
fn main() {
    let mut n = 0u32;
    let mut arena = Arena::<Rootable![Root<'_>]>::new(|mc| {
        let mut g = || { n += 1; Gc::new(mc, Tok(n)) };
        let mut dq = VecDeque::with_capacity(4); dq.push_back(g()); dq.push_back(g()); dq.push_front(g()); dq.push_front(g());
        Root { opt: Some(g()), res: Err(g()), tup: (0, 0, g()), arr: [g(), g()], bx: Box::new(g()), rc: Rc::new(g()), arc: Arc::new(g()), vec: vec![g(), g(), g()], dq,
               ll: LinkedList::from_iter([g(), g()]), bm: BTreeMap::from_iter([(1, g()), (2, g())]), hm: HashMap::from_iter([(1, g()), (2, g())]), lock: Lock::new(Some(g())), rl: RefLock::new(vec![g(), g()]),
               tup16: (0, 0, 0, 0, 0, 0, 0, 0, 0, 0, 0, 0, 0, 0, 0, g()),
               gvec: Gc::new(mc, vec![g(), g()]), gopt: Gc::new(mc, Some(g())), garr: Gc::new(mc, [g(), g()]), gtup: Gc::new(mc, (0, g())), glock: Gc::new(mc, Lock::new(Some(g()))), grl: Gc::new(mc, RefLock::new(vec![g()])),
               gslice: GcSliceBuilder::<G>::new(3).write_slice_with(mc, |_| g()), gslice1: GcSliceBuilder::<G>::new(1).write_slice_with(mc, |_| g()),
               gswh_elems: GcSliceWithHeaderBuilder::<u8, G>::new(2).write_header(7).write_slice_with(mc, |_| g()), gswh_unit_header: GcSliceWithHeaderBuilder::<(), G>::new(2).write_header(()).write_slice_with(mc, |_| g()),
               gswh_header: { let h = g(); GcSliceWithHeaderBuilder::<G, u8>::new(2).write_header(h).write_slice_with(mc, |_| 0) }, gswh_header_empty: { let h = g(); GcSliceWithHeaderBuilder::<G, u8>::new(0).write_header(h).write_slice_with(mc, |_| 0) },
               gunsized: gc_arena::unsize!(Gc::new(mc, [g(), g()]) => [G]), gdyn: Gc::new(mc, Box::new((0u8, g())) as Box<dyn Holds + '_>), gbox: Gc::new(mc, Box::new(g())), ggc: Gc::new(mc, Gc::new(mc, g())) }
    });
    arena.mutate(|mc, _| { Gc::new(mc, Tok(999)); });
    arena.finish_cycle();
    arena.finish_cycle();
    let d = DROPS.with(|d| d.get());
    if d != 1 { println!("C16 violated: {} values destructed by two full collections, expected exactly the one piece of garbage ({} rooted through containers)", d, n); std::process::exit(1); }
    drop(arena);
    if DROPS.with(|d| d.get()) != n + 1 { println!("C16 violated: destructor count after arena drop"); std::process::exit(1); }
}
'''

NEG_HEAD = r'''#![allow(unused)]
use gc_arena::{Collect, Gc, GcWeak, Static};
use std::cell::{Cell, RefCell};
use std::collections::*;
fn assert_collect<'gc, T: Collect<'gc> + ?Sized>() {}
'''
# types that must NOT be Collect<'gc> for an arbitrary brand 'gc
NEG = {
    "Cell<Gc>": "Cell<Gc<'gc, u32>>", "RefCell<Gc>": "RefCell<Gc<'gc, u32>>", "Cell<Option<GcWeak>>": "Cell<Option<GcWeak<'gc, u32>>>", "RefCell<Vec<Gc>>": "RefCell<Vec<Gc<'gc, u32>>>",
    "&'gc Gc": "&'gc Gc<'gc, u32>", "&'static Gc<'gc>": "&'static Gc<'gc, u32>", "Static<Gc>": "Static<Gc<'gc, u32>>", "Static<&'gc u8>": "Static<&'gc u8>", "&'gc u8": "&'gc u8",
    "&mut Gc": "&'gc mut Gc<'gc, u32>", "rc::Weak<Gc>": "std::rc::Weak<Gc<'gc, u32>>", "sync::Weak<Gc>": "std::sync::Weak<Gc<'gc, u32>>",  
    "Gc<'static> under 'gc": "Gc<'static, u32>", "GcWeak<'static> under 'gc": "GcWeak<'static, u32>", "Mutex<Gc>": "std::sync::Mutex<Gc<'gc, u32>>", "std::cell::OnceCell<Gc>": "std::cell::OnceCell<Gc<'gc, u32>>",
    "UnsafeCell<Gc>": "std::cell::UnsafeCell<Gc<'gc, u32>>", "String slice ref": "&'gc str",
    "HashMap hasher holding Gc": "HashMap<u8, u8, H<'gc>>", "HashSet hasher holding Gc": "HashSet<u8, H<'gc>>", "HashMap<Gc,u8> hasher holding Gc": "HashMap<Gc<'gc, u32>, u8, H<'gc>>",
}
NEG_OPT = {
    "hashbrown::HashMap hasher holding Gc": "hashbrown::HashMap<u8, u8, H<'gc>>", "hashbrown::HashSet hasher holding Gc": "hashbrown::HashSet<u8, H<'gc>>",
    "IndexMap hasher holding Gc": "indexmap::IndexMap<u8, u8, H<'gc>>", "IndexSet hasher holding Gc": "indexmap::IndexSet<u8, H<'gc>>",
    "SmallVec<[Cell<Gc>;2]>": "smallvec::SmallVec<[Cell<Gc<'gc, u32>>; 2]>", "SlotMap<_,Cell<Gc>>": "slotmap::SlotMap<slotmap::DefaultKey, Cell<Gc<'gc, u32>>>", "EnumMap<bool,RefCell<Gc>>": "enum_map::EnumMap<bool, RefCell<Gc<'gc, u32>>>",
}
POS_TWIN = ["Gc<'gc, u32>", "Cell<u32>", "RefCell<String>", "&'static str", "Static<std::rc::Weak<u8>>", "HashMap<u8, Gc<'gc, u32>>", "Vec<GcWeak<'gc, u32>>", "std::marker::PhantomData<Cell<Gc<'gc, u32>>>"]
HASHER = "#[derive(Clone)]\nstruct H<'gc>(Gc<'gc, u32>);\nimpl<'gc> std::hash::BuildHasher for H<'gc> { type Hasher = std::collections::hash_map::DefaultHasher; fn build_hasher(&self) -> Self::Hasher { Default::default() } }\n"


SINGLE = {"f_hashbrown": {"hashbrown"}, "f_indexmap": {"indexmap"}, "f_slotmap": {"slotmap"}, "f_smallvec": {"smallvec"}, "f_enum_map": {"enum_map"}, "f_tracing": set(), "nostd": set()}


def generate(tier, features="allf"):
    spec = generate_one(tier, features)
    if features == "allf":
        spec["more"] = [generate_one(tier, None)]
        if tier == "thorough":
            for f, crates in SINGLE.items():
                spec["more"].append(single_feature(f, crates))
    return spec


def single_feature(feat, crates):
    std = feat != "nostd"
    src = HEAD + body(set(crates), std)
    if not std:
        src = src.replace("use std::collections::{BTreeMap, BTreeSet, BinaryHeap, HashMap, HashSet, LinkedList, VecDeque};", "use std::collections::{BTreeMap, BTreeSet, BinaryHeap, LinkedList, VecDeque};")
    n = src.count("chk!(") + src.count("chkr!(")
    return {"probes": [Probe(f"exact/{feat}", src, "run", group="exact")], "features": feat, "externs": ("gc_arena",) + tuple(sorted(crates)), "container_instances": n}


UNLISTED_PROG = r'''#![forbid(unsafe_code)]
#![allow(unused)]
use gc_arena::{Arena, Collect, Gc, Mutation, Rootable};
use std::sync::atomic::{AtomicBool, Ordering};
static DROPPED: AtomicBool = AtomicBool::new(false);
#[derive(Clone, Collect)]
#[collect(require_static)]
struct Tok(u8);
impl Drop for Tok { fn drop(&mut self) { if self.0 == 1 { DROPPED.store(true, Ordering::SeqCst); } } }
type G<'gc> = Gc<'gc, Tok>;
type W<'gc> = /*TY*/;
fn make<'gc>(mc: &Mutation<'gc>, g: G<'gc>) -> W<'gc> { /*CTOR*/ }
fn main() {
    let mut arena = Arena::<Rootable![W<'_>]>::new(|mc| make(mc, Gc::new(mc, Tok(1))));
    arena.finish_cycle();
    arena.finish_cycle();
    if DROPPED.load(Ordering::SeqCst) {
        println!("the root holds the value through a provided Collect impl, but the value was destructed: the impl does not report what it holds");
        std::process::exit(1);
    }
    drop(arena);
    if !DROPPED.load(Ordering::SeqCst) && !std::any::type_name::<W<'static>>().contains("ManuallyDrop") && !std::any::type_name::<W<'static>>().contains("MaybeUninit") {
        // (dropping the arena destructs everything it holds)
    }
}
'''
UNLISTED = {
    "Cow_borrowed_from_gc": ("std::borrow::Cow<'gc, Tok>", "std::borrow::Cow::Borrowed(Gc::as_ref(g))"),
    "Reverse": ("std::cmp::Reverse<G<'gc>>", "std::cmp::Reverse(g)"),
    "Wrapping": ("std::num::Wrapping<G<'gc>>", "std::num::Wrapping(g)"),
    "Saturating": ("std::num::Saturating<G<'gc>>", "std::num::Saturating(g)"),
    "Pin_Gc": ("std::pin::Pin<G<'gc>>", "std::pin::Pin::new(g)"),
    "Pin_Box": ("std::pin::Pin<Box<G<'gc>>>", "Box::pin(g)"),
    "Pin_Rc": ("std::pin::Pin<std::rc::Rc<G<'gc>>>", "std::rc::Rc::pin(g)"),
    "ManuallyDrop": ("std::mem::ManuallyDrop<G<'gc>>", "std::mem::ManuallyDrop::new(g)"),
    "MaybeUninit": ("std::mem::MaybeUninit<G<'gc>>", "std::mem::MaybeUninit::new(g)"),
    "AssertUnwindSafe": ("std::panic::AssertUnwindSafe<G<'gc>>", "std::panic::AssertUnwindSafe(g)"),
    "Poll": ("std::task::Poll<G<'gc>>", "std::task::Poll::Ready(g)"),
    "ControlFlow_break": ("std::ops::ControlFlow<G<'gc>, ()>", "std::ops::ControlFlow::Break(g)"),
    "ControlFlow_continue": ("std::ops::ControlFlow<(), G<'gc>>", "std::ops::ControlFlow::Continue(g)"),
    "Bound": ("std::ops::Bound<G<'gc>>", "std::ops::Bound::Included(g)"),
    "Range": ("std::ops::Range<G<'gc>>", "g..g"),
    "iter_Once": ("std::iter::Once<G<'gc>>", "std::iter::once(g)"),
    "option_IntoIter": ("std::option::IntoIter<G<'gc>>", "Some(g).into_iter()"),
    "vec_IntoIter": ("std::vec::IntoIter<G<'gc>>", "vec![g].into_iter()"),
    "Peekable": ("std::iter::Peekable<std::vec::IntoIter<G<'gc>>>", "vec![g].into_iter().peekable()"),
    "OnceCell": ("std::cell::OnceCell<G<'gc>>", "{ let c = std::cell::OnceCell::new(); let _ = c.set(g); c }"),
    "UnsafeCell": ("std::cell::UnsafeCell<G<'gc>>", "std::cell::UnsafeCell::new(g)"),
    "Mutex": ("std::sync::Mutex<G<'gc>>", "std::sync::Mutex::new(g)"),
    "RwLock": ("std::sync::RwLock<G<'gc>>", "std::sync::RwLock::new(g)"),
    "sync_OnceLock": ("std::sync::OnceLock<G<'gc>>", "{ let c = std::sync::OnceLock::new(); let _ = c.set(g); c }"),
    "rc_Weak": ("std::rc::Weak<G<'gc>>", "{ let r = std::rc::Rc::new(g); let w = std::rc::Rc::downgrade(&r); std::mem::forget(r); w }"),
    "tuple_17": ("(u8, u8, u8, u8, u8, u8, u8, u8, u8, u8, u8, u8, u8, u8, u8, u8, G<'gc>)", "(0, 0, 0, 0, 0, 0, 0, 0, 0, 0, 0, 0, 0, 0, 0, 0, g)"),
    "Box_dyn_Any": ("Box<dyn std::any::Any>", "{ let _ = g; Box::new(0u8) }"),
    "ref_to_heap": ("&'gc Tok", "Gc::as_ref(g)"),
    "Option_ref_to_heap": ("Option<&'gc Tok>", "Some(Gc::as_ref(g))"),
    "Box_ref_to_heap": ("Box<&'gc Tok>", "Box::new(Gc::as_ref(g))"),
    "Vec_ref_to_heap": ("Vec<&'gc Tok>", "vec![Gc::as_ref(g)]"),
}


def generate_one(tier, features):
    optional = features == "allf"
    ps = []
    tag = "all-features" if optional else "default-features"
    ps.append(Probe(f"exact/{tag}", HEAD + body(optional), "run", group="exact"))
    ps.append(Probe(f"survival/{tag}", SURVIVAL, "run", group="survival"))
    for name, ty in list(NEG.items()) + (list(NEG_OPT.items()) if optional else []):
        ps.append(Probe(f"not_collect/{name}", NEG_HEAD + HASHER + f"fn f<'gc>() {{ assert_collect::<'gc, {ty}>(); }}\nfn main() {{}}\n", "reject", group="not_collect"))
    for ty in POS_TWIN:
        ps.append(Probe(f"not_collect/twin/{ty}", NEG_HEAD + HASHER + f"fn f<'gc>() {{ assert_collect::<'gc, {ty}>(); }}\nfn main() {{}}\n", "accept", group="not_collect"))
    # static_collect! on a branded type
    ps.append(Probe("not_collect/static_collect_on_branded", NEG_HEAD + "struct B<'gc>(Gc<'gc, u32>);\ngc_arena::static_collect!(B<'gc>);\nfn f<'gc>() { assert_collect::<'gc, B<'gc>>(); }\nfn main() {}\n", "reject", group="not_collect"))
    ps.append(Probe("not_collect/static_collect_generic_branded", NEG_HEAD + "struct B<T>(T);\ngc_arena::static_collect!(<T> B<T>);\nfn f<'gc>() { assert_collect::<'gc, B<Gc<'gc, u32>>>(); }\nfn main() {}\n", "reject", group="not_collect"))
    ps.append(Probe("not_collect/twin/static_collect_plain", NEG_HEAD + "struct B(u32);\ngc_arena::static_collect!(B);\nfn f<'gc>() { assert_collect::<'gc, B>(); }\nfn main() {}\n", "accept", group="not_collect"))
    # std wrappers / containers for which the crate provides NO impl today: if one appears, it must report what it holds
    # (root = the wrapper around a pointer; two full cycles; the target must survive). Rejected today; accepted-and-exact is fine.
    if not optional:
        for name, (ty, ctor) in UNLISTED.items():
            ps.append(Probe(f"unlisted/{name}", UNLISTED_PROG.replace("/*TY*/", ty).replace("/*CTOR*/", ctor), "reject_or_run", group="unlisted"))
        ps.append(Probe("unlisted/control/option", UNLISTED_PROG.replace("/*TY*/", "Option<G<'gc>>").replace("/*CTOR*/", "Some(g)"), "run", group="unlisted"))
    n_cases = body(optional).count("chk!(") + body(optional).count("chkr!(")
    return {
        "probes": ps,
        "features": "allf" if optional else None,
        "externs": ("gc_arena", "hashbrown", "indexmap", "slotmap", "smallvec", "enum_map") if optional else ("gc_arena",),
        "rule": f"{len(UNLISTED)} std wrappers / adaptors with no impl today (Cow borrowed from the heap, Reverse, Wrapping, Pin, ManuallyDrop, Poll, ControlFlow, Bound, iterators, std cells and locks, 17-tuples, references into the heap): each is either not Collect or a root holding a pointer through it keeps the target alive through two cycles; one generated program ({n_cases} container instances, feature set {tag}): for every provided impl (pointers, Option, Result, tuples of arity 1..16, arrays, slices, Box, Rc, Arc, Vec, VecDeque incl. wrapped ring buffers, LinkedList, BinaryHeap, BTreeMap/Set, HashMap/Set, Lock, RefLock, OnceLock set/unset, SliceWithHeader" + (", hashbrown HashMap/HashSet/HashTable, indexmap IndexMap/IndexSet, slotmap SlotMap, SmallVec inline and spilled, EnumMap" if optional else "") + ") x every type-parameter position x every element position for sizes 0..3, a Gc (strong) or GcWeak in exactly that position: recording Trace multiset == pointers placed, through the NEEDS_TRACE gate; NEEDS_TRACE true whenever a parameter's is; one end-to-end survival program; negative probes: types that must not be Collect<'gc> (interior mutability, non-'static references, Static of branded types, foreign brands, raw pointers, hashers holding pointers, static_collect! on branded types) each with positive twins. evaluations = programs; container instances are counted in details",
        "level": "exploration",
        "assumptions": ["pinned rustc 1.95", "sizes 0..3 per container; one pointer type (Gc<u32>) per position"],
        "container_instances": n_cases,
    }
