"""C06 (program half): the sanctioned write path works for EVERY kind of holder allocation, not only for the sized
struct the explorer's world is made of: fat and thin slices, header+slice allocations (zero-sized / non-zero header,
fat and thin), arrays, Vec / Box as the allocated value, the three lock kinds directly in a Gc - each under the
default and the stop-the-world pacing, in an arena fully marked for the first time and after a complete cycle.
Every program is a CONTROL: it must compile and run, and the fresh white child adopted by the black holder must
survive the cycle (seeded: `Gc::write` skipping its barrier when the stored pointee is zero-sized - `()` for thin
slices; barriers switched off while all work factors are zero)."""
from probes import Probe

PRELUDE = r'''#![allow(unused, unused_must_use)]
use gc_arena::{Arena, Collect, Gc, GcWeak, Lock, RefLock, Rootable, Mutation, SliceWithHeader, GcSliceBuilder, GcSliceWithHeaderBuilder,
    barrier::{Write, field, unlock}, lock::OnceLock, metrics::Pacing};
use std::sync::atomic::{AtomicBool, Ordering};

static DROPPED: std::sync::Mutex<Vec<u32>> = std::sync::Mutex::new(Vec::new());
fn dropped(id: u32) -> bool { DROPPED.lock().unwrap().contains(&id) }
#[derive(Collect)]
#[collect(require_static)]
struct Child(u32);
impl Drop for Child { fn drop(&mut self) { DROPPED.lock().unwrap().push(self.0); } }
type C<'gc> = Gc<'gc, Child>;
type Lk<'gc> = Lock<Option<C<'gc>>>;
#[derive(Collect)]
#[collect(no_drop)]
struct Pair<'gc> { tag: u64, slot: Lk<'gc> }
/*ITEMS*/
#[derive(Collect)]
#[collect(no_drop)]
struct Root<'gc> { h: H<'gc> }

fn scenario(sweep_first: bool, stw: bool) -> i32 {
    DROPPED.lock().unwrap().clear();
    let mut arena = Arena::<Rootable![Root<'_>]>::new(|mc| Root { h: mk(mc) });
    if stw { arena.metrics().set_pacing(Pacing::STOP_THE_WORLD); }
    if sweep_first { arena.finish_cycle(); }
    // the holder is black, the arena fully marked
    arena.finish_marking();
    arena.mutate(|mc, root| {
        let child = Gc::new(mc, Child(7)); // fresh, white
        adopt(mc, root.h, child);
    });
    arena.finish_cycle();
    let stored: Option<u32> = arena.mutate(|_, root| holds(root.h));
    let Some(stored) = stored else { println!("the sanctioned write did not store the child"); return 2; };
    if dropped(stored) {
        println!("C01 violated: the child is reachable from the root through the holder but was destructed (sweep_first = {sweep_first}, stop-the-world pacing = {stw})");
        return 1;
    }
    arena.finish_cycle();
    if dropped(stored) {
        println!("C01 violated (second cycle): reachable child destructed (sweep_first = {sweep_first}, stop-the-world pacing = {stw})");
        return 1;
    }
    0
}
fn main() {
    let mut rc = 0;
    for sweep_first in [false, true] { for stw in [false, true] { rc |= scenario(sweep_first, stw); } }
    std::process::exit(rc);
}
'''

SLICE3 = "GcSliceBuilder::<Lk<'gc>>::new(3).write_slice_with(mc, |_| Lock::new(None))"
HOLDERS = {
    # name: (type H, mk body, adopt body, holds body)
    "sized_struct": ("Gc<'gc, Pair<'gc>>", "Gc::new(mc, Pair { tag: 1, slot: Lock::new(None) })", "field!(Gc::write(mc, h), Pair, slot).unlock().set(Some(child));", "h.slot.get().map(|c| c.0)"),
    "sized_struct_unlock_macro": ("Gc<'gc, Pair<'gc>>", "Gc::new(mc, Pair { tag: 1, slot: Lock::new(None) })", "unlock!(Gc::write(mc, h), Pair, slot).set(Some(child));", "h.slot.get().map(|c| c.0)"),
    "gc_lock": ("Gc<'gc, Lk<'gc>>", "Gc::new(mc, Lock::new(None))", "h.set(mc, Some(child));", "h.get().map(|c| c.0)"),
    "gc_lock_unlock": ("Gc<'gc, Lk<'gc>>", "Gc::new(mc, Lock::new(None))", "h.unlock(mc).set(Some(child));", "h.get().map(|c| c.0)"),
    "gc_reflock": ("Gc<'gc, RefLock<Option<C<'gc>>>>", "Gc::new(mc, RefLock::new(None))", "*h.borrow_mut(mc) = Some(child);", "h.borrow().as_ref().map(|c| c.0)"),
    "gc_reflock_vec_push_fresh": ("Gc<'gc, RefLock<Vec<C<'gc>>>>", "Gc::new(mc, RefLock::new(vec![]))", "let _ = child; let mut v = h.borrow_mut(mc); v.push(Gc::new(mc, Child(8)));", "h.borrow().first().map(|c| c.0)"),
    "gc_oncelock": ("Gc<'gc, OnceLock<C<'gc>>>", "Gc::new(mc, OnceLock::new())", "let _ = h.set(mc, child);", "h.get().map(|c| c.0)"),
    "gc_oncelock_get_or_init_fresh": ("Gc<'gc, OnceLock<C<'gc>>>", "Gc::new(mc, OnceLock::new())", "let _ = child; let _ = h.get_or_init(mc, || Gc::new(mc, Child(8)));", "h.get().map(|c| c.0)"),
    "fat_slice": ("gc_arena::GcSlice<'gc, Lk<'gc>>", SLICE3, "Gc::write(mc, h)[1].unlock().set(Some(child));", "h[1].get().map(|c| c.0)"),
    "thin_slice": ("gc_arena::GcThinSlice<'gc, Lk<'gc>>", f"Gc::as_thin({SLICE3})", "Gc::write(mc, h)[1].unlock().set(Some(child));", "h[1].get().map(|c| c.0)"),
    "thin_slice_via_fat": ("gc_arena::GcThinSlice<'gc, Lk<'gc>>", f"Gc::as_thin({SLICE3})", "Gc::write(mc, Gc::as_fat(h))[2].unlock().set(Some(child));", "h[2].get().map(|c| c.0)"),
    "fat_slice_len1": ("gc_arena::GcSlice<'gc, Lk<'gc>>", "GcSliceBuilder::<Lk<'gc>>::new(1).write_slice_with(mc, |_| Lock::new(None))", "Gc::write(mc, h)[0].unlock().set(Some(child));", "h[0].get().map(|c| c.0)"),
    "header_slice_header": ("gc_arena::GcSliceWithHeader<'gc, Lk<'gc>, Lk<'gc>>", "GcSliceWithHeaderBuilder::<Lk<'gc>, Lk<'gc>>::new(2).write_header(Lock::new(None)).write_slice_with(mc, |_| Lock::new(None))",
                            "field!(Gc::write(mc, h), SliceWithHeader, header).unlock().set(Some(child));", "h.header.get().map(|c| c.0)"),
    "header_slice_element": ("gc_arena::GcSliceWithHeader<'gc, Lk<'gc>, Lk<'gc>>", "GcSliceWithHeaderBuilder::<Lk<'gc>, Lk<'gc>>::new(2).write_header(Lock::new(None)).write_slice_with(mc, |_| Lock::new(None))",
                             "field!(Gc::write(mc, h), SliceWithHeader, slice)[1].unlock().set(Some(child));", "h.slice[1].get().map(|c| c.0)"),
    "zst_header_slice_element": ("gc_arena::GcSliceWithHeader<'gc, (), Lk<'gc>>", "GcSliceWithHeaderBuilder::<(), Lk<'gc>>::new(2).write_header(()).write_slice_with(mc, |_| Lock::new(None))",
                                 "field!(Gc::write(mc, h), SliceWithHeader, slice)[1].unlock().set(Some(child));", "h.slice[1].get().map(|c| c.0)"),
    "thin_header_slice_header": ("gc_arena::GcThinSliceWithHeader<'gc, Lk<'gc>, Lk<'gc>>", "Gc::as_thin(GcSliceWithHeaderBuilder::<Lk<'gc>, Lk<'gc>>::new(2).write_header(Lock::new(None)).write_slice_with(mc, |_| Lock::new(None)))",
                                 "field!(Gc::write(mc, h), SliceWithHeader, header).unlock().set(Some(child));", "h.header.get().map(|c| c.0)"),
    "thin_zst_header_slice_element": ("gc_arena::GcThinSliceWithHeader<'gc, (), Lk<'gc>>", "Gc::as_thin(GcSliceWithHeaderBuilder::<(), Lk<'gc>>::new(2).write_header(()).write_slice_with(mc, |_| Lock::new(None)))",
                                      "field!(Gc::write(mc, h), SliceWithHeader, slice)[0].unlock().set(Some(child));", "h.slice[0].get().map(|c| c.0)"),
    "array": ("Gc<'gc, [Lk<'gc>; 2]>", "Gc::new(mc, [Lock::new(None), Lock::new(None)])", "Gc::write(mc, h)[1].unlock().set(Some(child));", "h[1].get().map(|c| c.0)"),
    "array_unsized": ("Gc<'gc, [Lk<'gc>]>", "gc_arena::unsize!(Gc::new(mc, [Lock::new(None), Lock::new(None)]) => [Lk<'gc>])", "Gc::write(mc, h)[1].unlock().set(Some(child));", "h[1].get().map(|c| c.0)"),
    "vec_value": ("Gc<'gc, Vec<Lk<'gc>>>", "Gc::new(mc, vec![Lock::new(None), Lock::new(None)])", "Gc::write(mc, h)[1].unlock().set(Some(child));", "h[1].get().map(|c| c.0)"),
    "box_value": ("Gc<'gc, Box<Lk<'gc>>>", "Gc::new(mc, Box::new(Lock::new(None)))", "Gc::write(mc, h).as_deref().unlock().set(Some(child));", "h.get().map(|c| c.0)"),
    "option_value": ("Gc<'gc, Option<Lk<'gc>>>", "Gc::new(mc, Some(Lock::new(None)))", "Gc::write(mc, h).as_write().unwrap().unlock().set(Some(child));", "(*h).as_ref().unwrap().get().map(|c| c.0)"),
    "newest_object_reflock": ("Gc<'gc, RefLock<Vec<C<'gc>>>>", "Gc::new(mc, RefLock::new(vec![]))", "let _ = child; h.borrow_mut(mc).push(Gc::new(mc, Child(9)));", "h.borrow().first().map(|c| c.0)"),
}


def generate(tier):
    ps = []
    for name, (ty, mk, adopt, holds) in HOLDERS.items():
        items = (f"type H<'gc> = {ty};\nfn mk<'gc>(mc: &Mutation<'gc>) -> H<'gc> {{ {mk} }}\n"
                 f"fn adopt<'gc>(mc: &Mutation<'gc>, h: H<'gc>, child: C<'gc>) {{ {adopt} }}\nfn holds<'gc>(h: H<'gc>) -> Option<u32> {{ {holds} }}\n")
        ps.append(Probe(f"holder_kinds/{name}", PRELUDE.replace("/*ITEMS*/", items), "run", group="holder_kinds"))
    return {"probes": ps,
            "rule": "every holder kind {sized struct (field! / unlock!), Gc<Lock> (set / unlock), Gc<RefLock> (borrow_mut, push of a fresh object), Gc<OnceLock> (set, get_or_init with a fresh object), fat / thin slice, header+slice with zero-sized and non-zero header (fat / thin; header and element), array (sized / unsized), Vec / Box / Option as the allocated value} x its sanctioned write path x {arena fully marked for the first time, after a complete cycle} x {default pacing, stop-the-world pacing}: the program must compile and run, the fresh white child adopted by the black holder survives this and the next cycle"}
