"""Generated-program probes (DESIGN.md 4.2): exhaustive enumeration of a typed probe grammar; rustc's
verdict on every generated program; every accepted program that the grammar marks "must be harmless" is run."""
import concurrent.futures as cf
import hashlib
import json
import os
import re
import subprocess
import sys
import time

VERIF = os.path.dirname(os.path.dirname(os.path.abspath(__file__)))
BUILD = os.path.join(VERIF, ".build")
HOST = os.path.join(VERIF, "probes", "host")
ENV = dict(os.environ, CARGO_NET_OFFLINE="true", RUST_BACKTRACE="0")
ENV.pop("RUSTFLAGS", None)
NPROC = os.cpu_count() or 4


def log(*a):
    print(*a, file=sys.stderr, flush=True)


class Probe:
    """expect: 'reject' (must not compile), 'accept' (positive twin: must compile),
    'run' (must compile and exit 0), 'reject_or_run' (rejected, or accepted and exits 0),
    'known' (listed finding: expected to compile today)."""

    def __init__(self, pid, src, expect, group="", known_key=None, note=""):
        self.id, self.src, self.expect, self.group, self.known_key, self.note = pid, src, expect, group, known_key, note
        self.accepted = None
        self.codes = []
        self.exit = None
        self.output = ""
        self.first_error = ""


class Host:
    def __init__(self, features=None):
        self.features = features
        self.tag = "probes" + ("-" + features if features else "")
        self.target = os.path.join(BUILD, self.tag)
        self.externs = {}
        self.deps = None

    def build(self):
        cmd = ["cargo", "build", "--offline", "--target-dir", self.target, "--message-format=json"]
        if self.features:
            cmd += ["--features", self.features]
        if self.features == "nostd":
            cmd += ["--no-default-features"]
        r = subprocess.run(cmd, cwd=HOST, env=ENV, stdout=subprocess.PIPE, stderr=subprocess.PIPE, text=True)
        if r.returncode != 0:
            log(r.stderr[-4000:])
            log("MACHINERY: gc-arena does not build for the probe host (not a verdict)")
            sys.exit(2)
        for line in r.stdout.splitlines():
            try:
                m = json.loads(line)
            except ValueError:
                continue
            if m.get("reason") == "compiler-artifact":
                name = m["target"]["name"].replace("-", "_")
                for f in m["filenames"]:
                    if f.endswith(".rlib") or f.endswith(".so"):
                        self.externs[name] = f
        self.deps = os.path.join(self.target, "debug", "deps")
        if "gc_arena" not in self.externs:
            log("MACHINERY: gc_arena rlib not found")
            sys.exit(2)

    def rustc(self, src_path, out_path, metadata_only, extra_externs=("gc_arena",)):
        cmd = ["rustc", "--edition", "2024", "--crate-type", "bin", "--crate-name", "probe", "-L", "dependency=" + self.deps, "--error-format=short", "-A", "warnings", "-C", "debuginfo=0", "-C", "opt-level=0"]
        for e in extra_externs:
            if e in self.externs:
                cmd += ["--extern", f"{e}={self.externs[e]}"]
        if metadata_only:
            cmd += ["--emit=metadata", "-o", out_path + ".rmeta"]
        else:
            cmd += ["-C", "debug-assertions=on", "-C", "overflow-checks=on", "-o", out_path]
        cmd.append(src_path)
        return subprocess.run(cmd, env=ENV, stdout=subprocess.PIPE, stderr=subprocess.PIPE, text=True)


EXTERNS_ALL = ("gc_arena", "hashbrown", "indexmap", "slotmap", "smallvec", "enum_map")


def evaluate(host, probes, workdir, externs=("gc_arena",)):
    """Compiles every probe (metadata only); compiles fully and runs those that are accepted and runnable."""
    os.makedirs(workdir, exist_ok=True)

    def one(p):
        h = hashlib.sha1(p.id.encode()).hexdigest()[:12]
        src = os.path.join(workdir, f"p_{h}.rs")
        open(src, "w").write(p.src)
        r = host.rustc(src, os.path.join(workdir, f"p_{h}"), True, externs)
        p.accepted = r.returncode == 0
        if not p.accepted:
            p.codes = sorted(set(re.findall(r"error\[(E\d+)\]", r.stderr)))
            errs = [l for l in r.stderr.splitlines() if "error" in l]
            p.first_error = errs[0][:300] if errs else r.stderr[:300]
            if "internal compiler error" in r.stderr:
                p.first_error = "ICE: " + p.first_error
        elif p.expect in ("run", "valid_run", "reject_or_run", "reject", "known"):
            # accepted: build and run it (for 'reject' probes this demonstrates the consequence)
            exe = os.path.join(workdir, f"p_{h}.bin")
            r2 = host.rustc(src, exe, False, externs)
            if r2.returncode != 0:
                p.exit = -999
                p.output = r2.stderr[-500:]
            else:
                try:
                    r3 = subprocess.run([exe], env=ENV, stdout=subprocess.PIPE, stderr=subprocess.STDOUT, text=True, timeout=60)
                    p.exit, p.output = r3.returncode, r3.stdout[-600:]
                except subprocess.TimeoutExpired:
                    p.exit, p.output = -998, "timeout"
                try:
                    os.remove(exe)
                except OSError:
                    pass
        for ext in (".rmeta",):
            try:
                os.remove(os.path.join(workdir, f"p_{h}{ext}"))
            except OSError:
                pass
        return p

    with cf.ThreadPoolExecutor(max_workers=NPROC) as ex:
        list(ex.map(one, probes))


SYNTAX_ERRORS = ("unknown start of token", "expected one of", "unclosed delimiter", "unexpected closing delimiter", "expected expression", "expected identifier", "expected item", "unterminated", "mismatched closing delimiter", "expected `;`", "expected pattern")


def judge(prop, probes, known):
    """Returns (violations, machinery, known_lines)."""
    viol, mach, klines = [], [], []
    for p in probes:
        if p.expect == "accept":
            if not p.accepted:
                mach.append(f"positive twin {p.id} does not compile: {p.first_error}")
        elif p.expect == "valid_run":
            # a generated program that uses the subject only in valid ways (it compiles on the reference tree): a
            # rejection is the subject refusing valid input, not a machinery problem
            if not p.accepted:
                viol.append((p, f"a valid program is rejected: {p.first_error}"))
            elif p.exit != 0:
                viol.append((p, f"program exits {p.exit}: {p.output.strip()[-300:]}"))
        elif p.expect == "run":
            if not p.accepted:
                mach.append(f"runnable probe {p.id} does not compile: {p.first_error}")
            elif p.exit != 0:
                viol.append((p, f"program exits {p.exit}: {p.output.strip()[-300:]}"))
        elif p.expect == "reject":
            if p.accepted:
                viol.append((p, f"program that must be rejected compiles (ran: exit {p.exit}; {p.output.strip()[-200:]})"))
            elif p.first_error.startswith("ICE"):
                mach.append(f"{p.id}: {p.first_error}")
            elif not p.codes and any(t in p.first_error for t in SYNTAX_ERRORS):
                # rejected because the generated text is not even Rust: the probe says nothing
                mach.append(f"{p.id}: negative probe is rejected for a syntax error of the generator: {p.first_error}")
        elif p.expect == "reject_or_run":
            if p.accepted and p.exit != 0:
                viol.append((p, f"accepted program violates the oracle: exit {p.exit}: {p.output.strip()[-300:]}"))
        elif p.expect == "known":
            if p.accepted:
                if p.known_key in known:
                    klines.append(f"KNOWN-FINDING: property={prop} {p.known_key}: {known[p.known_key]['what']}")
                else:
                    viol.append((p, f"program that must be rejected compiles (ran: exit {p.exit}; {p.output.strip()[-200:]})"))
    return viol, mach, klines


def run_stage(prop, genname, tier):
    """Runs a probe grammar as an additional stage of another engine's check. Returns (coverage part, violation body or None, machinery list)."""
    import engines
    mod = __import__(genname)
    spec = mod.generate(tier)
    host = Host(spec.get("features"))
    host.build()
    workdir = os.path.join(BUILD, "probe-work", prop + "-stage")
    subprocess.run(["rm", "-rf", workdir])
    probes = spec["probes"]
    evaluate(host, probes, workdir, spec.get("externs", ("gc_arena",)))
    viol, mach, _ = judge(prop, probes, engines.known_open(prop))
    cov = {"programs": len(probes), "rejected_by_rustc": sum(1 for p in probes if p.accepted is False), "accepted_by_rustc": sum(1 for p in probes if p.accepted),
           "distinct_nontrivial": sum(1 for p in probes if p.expect != "accept"), "rule": spec["rule"],
           "samples": [{"id": p.id, "accepted_by_rustc": p.accepted, "error_codes": p.codes} for p in probes[:: max(1, len(probes) // 4)][:4]]}
    body = None
    if viol:
        p, msg = viol[0]
        body = {"probe_id": p.id, "expect": p.expect, "message": msg, "features": spec.get("features"), "externs": list(spec.get("externs", ("gc_arena",))), "program": p.src}
        log(f"violated: probe {p.id}: {msg}")
    return cov, body, mach


GENERATORS = {}


def run(prop, tier):
    import engines
    cm = engines.check_mod()
    t0 = time.time()
    mod = __import__(prop.lower() + "gen")
    spec = mod.generate(tier)
    host = Host(spec.get("features"))
    host.build()
    workdir = os.path.join(BUILD, "probe-work", prop)
    subprocess.run(["rm", "-rf", workdir])
    probes = spec["probes"]
    evaluate(host, probes, workdir, spec.get("externs", ("gc_arena",)))
    for i, sub in enumerate(spec.get("more", [])):
        h2 = Host(sub.get("features"))
        h2.build()
        evaluate(h2, sub["probes"], workdir + f"-{i}", sub.get("externs", ("gc_arena",)))
        for q in sub["probes"]:
            q.features, q.externs = sub.get("features"), sub.get("externs", ("gc_arena",))
        probes = probes + sub["probes"]
    known = engines.known_open(prop)
    viol, mach, klines = judge(prop, probes, known)
    extra_cov = {}
    rc_extra = 0
    extra_viol = None
    if "post" in spec:
        rc_extra, extra_cov, extra_viol = spec["post"](tier, cm)
    n_rej = sum(1 for p in probes if p.accepted is False)
    n_acc = sum(1 for p in probes if p.accepted)
    n_run = sum(1 for p in probes if p.exit is not None)
    codes = {}
    for p in probes:
        for c in p.codes:
            codes[c] = codes.get(c, 0) + 1
    golden_path = os.path.join(VERIF, "probes", "golden", f"{prop}.json")
    notes = []
    if os.path.exists(golden_path):
        golden = json.load(open(golden_path))
        for p in probes:
            g = golden.get(p.id)
            if g is not None and p.accepted is False and g != p.codes:
                notes.append(f"{p.id}: error codes {p.codes}, golden {g}")
    groups = {}
    for p in probes:
        groups.setdefault(p.group, [0, 0])
        groups[p.group][0] += 1
        groups[p.group][1] += 1 if p.accepted else 0
    sample_ids = [p for p in probes if p.expect in ("reject", "reject_or_run")][:: max(1, len(probes) // 6)][:6]
    cov = {
        "evaluations": len(probes),
        "distinct_nontrivial": sum(1 for p in probes if p.expect != "accept"),
        "rule": spec["rule"],
        "samples": [{"id": p.id, "expect": p.expect, "accepted_by_rustc": p.accepted, "error_codes": p.codes, "program_tail": p.src.strip().splitlines()[-6:]} for p in sample_ids],
        "exhaustive": not viol and not mach,
        "programs": len(probes),
        "rejected_by_rustc": n_rej,
        "accepted_by_rustc": n_acc,
        "accepted_and_run": n_run,
        "error_code_histogram": codes,
        "groups": {k: {"programs": v[0], "accepted": v[1]} for k, v in sorted(groups.items())},
        "golden_code_notes": notes[:20],
    }
    if "container_instances" in spec:
        cov["container_instances_checked"] = spec["container_instances"] + sum(m.get("container_instances", 0) for m in spec.get("more", []))
    if "shapes" in spec:
        cov["type_shapes"] = spec["shapes"]
    cov.update(extra_cov)
    wall = time.time() - t0
    nviol = len(viol) + (1 if extra_viol else 0)
    cm.write_evidence(prop, tier, spec.get("level", "exploration"), cov, wall, nviol, spec.get("assumptions", ["pinned rustc 1.95; exhaustive over the stated grammar, not over all programs"]))
    log(f"[{prop}] programs {len(probes)} rejected {n_rej} accepted {n_acc} run {n_run} violations {len(viol)} machinery {len(mach)} wall {wall:.1f}s")
    for l in sorted(set(klines)):
        print(l)
    if viol:
        p, msg = viol[0]
        path = cm.write_replay(prop, "probe", {"probe_id": p.id, "expect": p.expect, "message": msg, "features": getattr(p, "features", spec.get("features")), "externs": list(getattr(p, "externs", spec.get("externs", ("gc_arena",)))), "program": p.src})
        log(f"violated: probe {p.id}: {msg}")
        for q, m in viol[1:6]:
            log(f"   also: {q.id}: {m[:160]}")
        print(f"VIOLATION property={prop} replay={path}")
        return 1
    if extra_viol:
        path = cm.write_replay(prop, extra_viol.get("engine", "grid"), extra_viol)
        log(f"violated: {extra_viol}")
        print(f"VIOLATION property={prop} replay={path}")
        return 1
    if mach or rc_extra == 2:
        for m in mach[:8]:
            log("MACHINERY:", m)
        return 2
    return 0


def replay(body, path):
    host = Host(body.get("features"))
    host.build()
    p = Probe(body["probe_id"], body["program"], body["expect"])
    workdir = os.path.join(BUILD, "probe-work", "replay")
    evaluate(host, [p], workdir, tuple(body.get("externs", ("gc_arena",))))
    print(f"probe {p.id}: accepted_by_rustc={p.accepted} codes={p.codes} exit={p.exit} {p.output.strip()[-300:]}")
    viol, mach, _ = judge("replay", [p], {})
    return 1 if viol else (2 if mach else 0)
