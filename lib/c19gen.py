"""C19 (rejection half) — the safe API never conjures values: every route to a Gc<T> without supplying a T goes
through an `unsafe fn` / `unsafe trait`; each such call written without `unsafe` must be rejected (twin: the same call
inside an unsafe block compiles). Known finding D3: ZstCache::alloc_zst::<T>() is safe and conjures."""
from probes import Probe

H = r'''#![allow(unused, unused_unsafe)]
use gc_arena::{Arena, Collect, Gc, GcBuilder, GcWeak, GcSliceBuilder, GcSliceWithHeaderBuilder, GcStrBuilder, Lock, RefLock, Mutation, Rootable, arena::rootless_mutate, barrier::{Write, Unlock}, lock::OnceLock, meta::{UnitPtrMeta, UnitTypeMeta}, zst_cache::ZstCache};
enum Void {}
mod private { pub struct Token(()); impl Token { pub fn describe(&self) -> &'static str { "a Token that only module `private` can create" } } }
#[repr(transparent)]
struct Twin(u32);
'''

# name -> statement(s) inside rootless_mutate(|mc| { ... }) that use an unsafe fn; `U{ ... }` marks the unsafe call
CALLS = {
    "Gc::from_ptr": "let g = Gc::new(mc, 1u32); let p = Gc::as_ptr(g); let _g2: Gc<u32> = U{ Gc::from_ptr(p) };",
    "Gc::from_ptr_with_kind": "let g = Gc::new(mc, 1u32); let p = Gc::as_ptr(g); let _g2: Gc<u32> = U{ Gc::from_ptr_with_kind(p) };",
    "Gc::cast": "let g = Gc::new(mc, 1u32); let _t: Gc<Twin> = U{ Gc::cast::<Twin>(g) };",
    "Gc::cast_to_uninhabited": "let g = Gc::new(mc, ()); let _t: Gc<Void> = U{ Gc::cast::<Void>(g) };",
    "GcThin::from_thin_ptr_with_kind": "let s = gc_arena::GcSlice::<u8>::new_slice(mc, &[1, 2]); let t = Gc::as_thin(s); let _t2: gc_arena::GcThinSlice<u8> = U{ gc_arena::GcThinSlice::from_thin_ptr_with_kind(Gc::as_thin_ptr(t)) };",
    "GcWeak::from_ptr": "let g = Gc::new(mc, 1u32); let p = Gc::as_ptr(g); let _w: GcWeak<u32> = U{ GcWeak::from_ptr(p) };",
    "GcWeak::from_ptr_with_kind": "let g = Gc::new(mc, 1u32); let p = Gc::as_ptr(g); let _w: GcWeak<u32> = U{ GcWeak::from_ptr_with_kind(p) };",
    "GcWeak::cast": "let g = Gc::new(mc, 1u32); let _w: GcWeak<Twin> = U{ GcWeak::cast::<Twin>(Gc::downgrade(g)) };",
    "GcBuilder::new_with_type_and_ptr_meta": "let _b = U{ GcBuilder::<u32, (), UnitPtrMeta>::new_with_type_and_ptr_meta::<UnitTypeMeta>(()) };",
    "GcBuilder::from_raw": "let b = GcBuilder::<u32>::new(); let raw = b.into_raw(); let _b2: GcBuilder<u32> = U{ GcBuilder::from_raw(raw) };",
    "GcBuilder::assume_init": "let b = GcBuilder::<u32>::new(); let _g: Gc<u32> = U{ b.assume_init(mc) };",
    "GcBuilder::assume_init/uninhabited": "let b = GcBuilder::<gc_arena::Static<Void>>::new().unwrap_static(); let _g: Gc<Void> = U{ b.assume_init(mc) };",
    "GcBuilder::assume_init/private_type": "let b = GcBuilder::<gc_arena::Static<private::Token>>::new().unwrap_static(); let _g: Gc<private::Token> = U{ b.assume_init(mc) };",
    "GcSliceWithHeaderBuilder::assume_init": "let b = GcSliceWithHeaderBuilder::<String, u8>::new(0); let sb = U{ b.assume_init() }; let _g = sb.write_slice_with(mc, |_| 0u8);",
    "GcSliceWithHeaderSliceBuilder::assume_init": "let b = GcSliceWithHeaderBuilder::<u8, String>::new(2).write_header(1); let _g = U{ b.assume_init(mc) };",
    "GcSliceBuilder::assume_init": "let b = GcSliceBuilder::<String>::new(2); let _g = U{ b.assume_init(mc) };",
    "GcSliceBuilder::assume_init/uninhabited": "let b = GcSliceBuilder::<gc_arena::Static<Void>>::new(1).unwrap_static(); let _g: gc_arena::GcSlice<Void> = U{ b.assume_init(mc) };",
    "GcStrBuilder::assume_init": "let b = GcStrBuilder::new(4); let _g = U{ b.assume_init(mc) };",
    "Write::assume": "let l = Lock::new(1u32); let _w = U{ Write::assume(&l) };",
    "Write::__from_ref_and_ptr": "let l = Lock::new(1u32); let _w = U{ Write::__from_ref_and_ptr(&l, &l as *const _) };",
    "Lock::as_cell": "let l = Lock::new(1u32); let _c = U{ l.as_cell() };",
    "RefLock::as_ref_cell": "let l = RefLock::new(1u32); let _c = U{ l.as_ref_cell() };",
    "Unlock::unlock_unchecked": "let l = Lock::new(1u32); let _c = U{ l.unlock_unchecked() };",
    "__CoercePtrInternal::__coerce_unchecked": "let g = Gc::new(mc, 1u32); let _d: Gc<dyn std::fmt::Debug> = U{ gc_arena::__CoercePtrInternal::__coerce_unchecked(g, |p: *const u32| -> *const dyn std::fmt::Debug { p }) };",
}
TRAITS = {
    "impl Collect": ("struct X(u32);\nUNSAFE impl<'gc> Collect<'gc> for X {}\n", ""),
    "impl Collect holding Gc without trace": ("struct X<'gc>(Gc<'gc, u32>);\nUNSAFE impl<'gc> Collect<'gc> for X<'gc> { const NEEDS_TRACE: bool = false; }\n", ""),
    "impl DerefWrite": ("struct X(Box<u32>);\nimpl std::ops::Deref for X { type Target = u32; fn deref(&self) -> &u32 { &self.0 } }\nUNSAFE impl gc_arena::barrier::DerefWrite for X {}\n", ""),
    "impl IndexWrite": ("struct X(Vec<u32>);\nimpl std::ops::Index<usize> for X { type Output = u32; fn index(&self, i: usize) -> &u32 { &self.0[i] } }\nUNSAFE impl gc_arena::barrier::IndexWrite<usize> for X {}\n", ""),
    "impl DynCollect": ("struct X(u32);\nUNSAFE impl<'gc> gc_arena::collect::DynCollect<'gc> for X { fn dyn_trace(&self, _: &mut dyn gc_arena::collect::Trace<'gc>) {} }\n", ""),
    "impl __CoercePtrInternal": ("struct X;\nUNSAFE impl gc_arena::__CoercePtrInternal<u8> for X { type FromPtr = u8; type ToPtr = u8; unsafe fn __coerce_unchecked<F>(self, _: F) -> u8 where F: FnOnce(*const u8) -> *const u8 { 0 } }\n", ""),
}
# safe calls that must not hand out a pointer to a value nobody constructed
KNOWN_ZST = {
    "uninhabited": ("let c = ZstCache::<8>::new(mc); let v: Option<Gc<Void>> = c.alloc_zst::<Void>(); if v.is_some() { conjured = true; }", "Gc<Void>"),
    "private_constructor": ("let c = ZstCache::<8>::new(mc); let v: Option<Gc<private::Token>> = c.alloc_zst::<private::Token>(); if let Some(t) = v { println!(\"{}\", t.describe()); conjured = true; }", "Gc<private::Token>"),
}
SAFE_NEG = {
    # no value is supplied => these must not type-check or must not yield Some
    "Gc::new without value": "let _g: Gc<Void> = Gc::new(mc);",
    "ZstCache::alloc without value": "let c = ZstCache::<8>::new(mc); let _g: Gc<Void> = c.alloc(mc);",
    "ZstCache::alloc_static without value": "let c = ZstCache::<8>::new(mc); let _g: Gc<private::Token> = c.alloc_static(mc);",
    "copy_slice of non-Copy elements (header+slice builder)": "let src = [String::from(\"x\")]; let _g = GcSliceWithHeaderBuilder::<u8, String>::new(1).write_header(0).copy_slice(mc, &src);",
    "copy_slice of non-Copy elements (slice builder)": "let src = [String::from(\"x\")]; let _g = GcSliceBuilder::<String>::new(1).copy_slice(mc, &src);",
    "new_slice of non-Copy elements": "let src = [String::from(\"x\")]; let _g = gc_arena::GcSlice::<String>::new_slice(mc, &src);",
    "unsize macro with unsafe argument": "let g = Gc::new(mc, 1u32); let p = Gc::as_ptr(g); let _d = gc_arena::unsize!(Gc::from_ptr(p) => dyn std::fmt::Debug);",
    "construct private token": "let _t = private::Token(());",
    "GcBuilder::write without value": "let b = GcBuilder::<gc_arena::Static<Void>>::new().unwrap_static(); let _g: Gc<Void> = b.write(mc);",
    "unsize to unrelated trait": "let g = Gc::new(mc, Some('x')); let _e = gc_arena::unsize!(g => dyn std::error::Error);",
    "unsize slice length forged": "let g = Gc::new(mc, [1u8, 2]); let _s: Gc<[u8; 3]> = gc_arena::unsize!(g => [u8; 3]);",
    "erase then typed deref": "let g = Gc::new(mc, 1u8); let e = Gc::erase(g); let _v: &u64 = &*e;",
    "erase_kind changes type": "let g = Gc::new(mc, 1u8); let _e: Gc<u64> = Gc::erase_kind(g);",
    # unsize! must only unsize: a target reachable from the pointee by a DEREF coercion is another object / non-GC memory
    "unsize through String deref": "let g = Gc::new(mc, String::from(\"x\")); let _s: Gc<str> = gc_arena::unsize!(g => str);",
    "unsize through Vec deref": "let g = Gc::new(mc, vec![1u8, 2]); let _s: Gc<[u8]> = gc_arena::unsize!(g => [u8]);",
    "unsize weak through Vec deref": "let g = Gc::new(mc, vec![1u8, 2]); let _s: gc_arena::GcWeak<[u8]> = gc_arena::unsize!(Gc::downgrade(g) => [u8]);",
    "unsize through Box deref": "let g = Gc::new(mc, Box::new(5u32)); let _s: Gc<u32> = gc_arena::unsize!(g => u32);",
    "unsize through Gc deref": "let g = Gc::new(mc, Gc::new(mc, 5u32)); let _s: Gc<u32> = gc_arena::unsize!(g => u32);",
    "unsize through Rc<str> deref": "let g = Gc::new_static(mc, std::rc::Rc::<str>::from(\"x\")); let _s: Gc<str> = gc_arena::unsize!(g => str);",
    "unsize to the same sized type": "let g = Gc::new(mc, 5u32); let _s: Gc<u64> = gc_arena::unsize!(g => u64);",
    "as_thin without metadata": "let g = Gc::new(mc, [1u8, 2]); let d: Gc<[u8]> = gc_arena::unsize!(g => [u8]); let _t = Gc::as_thin(d);",
}


def main_wrap(stmts, pre=""):
    return H + pre + "fn main() {\n    let mut conjured = false;\n    rootless_mutate(|mc| {\n        " + stmts + "\n    });\n    if conjured { println!(\"a Gc<T> was obtained from safe code for a T that was never constructed\"); std::process::exit(3); }\n}\n"


def generate(tier):
    ps = []
    for name, body in CALLS.items():
        ps.append(Probe(f"unsafe_fn_without_unsafe/{name}", main_wrap(body.replace("U{", "{")), "reject", group="unsafe_fn"))
        ps.append(Probe(f"unsafe_fn_without_unsafe/{name}/twin", main_wrap(body.replace("U{", "unsafe {")), "accept", group="unsafe_fn"))
    for name, (items, _) in TRAITS.items():
        ps.append(Probe(f"unsafe_trait_without_unsafe/{name}", H + items.replace("UNSAFE ", "") + "fn main() {}\n", "reject", group="unsafe_trait"))
        ps.append(Probe(f"unsafe_trait_without_unsafe/{name}/twin", H + items.replace("UNSAFE ", "unsafe ") + "fn main() {}\n", "accept", group="unsafe_trait"))
    for name, body in SAFE_NEG.items():
        ps.append(Probe(f"safe_conjuring/{name}", main_wrap(body), "reject", group="safe_conjuring"))
    ps.append(Probe("safe_conjuring/twin", main_wrap("let c = ZstCache::<8>::new(mc); let _g: Gc<()> = c.alloc(mc, ()); let g = Gc::new(mc, [1u8, 2]); let _s: Gc<[u8]> = gc_arena::unsize!(g => [u8]); let _e = Gc::erase(g);"), "accept", group="safe_conjuring"))
    for name, (body, ty) in KNOWN_ZST.items():
        ps.append(Probe(f"zst_cache/alloc_zst/{name}", main_wrap(body), "known", group="zst_cache", known_key="C19/zst_cache/alloc_zst-without-value"))
    # the other ZstCache entry points need a value and are therefore fine
    ps.append(Probe("zst_cache/twin_alloc_with_value", main_wrap("let c = ZstCache::<8>::new(mc); let _v: Gc<()> = c.alloc(mc, ()); let _w: Gc<[u8; 0]> = c.alloc_static(mc, []);"), "accept", group="zst_cache"))
    return {
        "probes": ps,
        "rule": f"{len(CALLS)} public unsafe functions and {len(TRAITS)} unsafe traits each used without `unsafe` (must be rejected; twin with `unsafe` compiles), incl. every builder's assume_init for uninhabited and privately-constructed types; {len(SAFE_NEG)} safe conjuring attempts (constructors without a value, forged unsizing, erased/typed confusion); ZstCache::alloc_zst for an uninhabited and for a privately constructed zero-sized type (known finding). Non-trivial = negatives",
        "level": "exploration",
        "assumptions": ["pinned rustc 1.95", "the list of unsafe entry points is the public API of the pinned tree; a new safe constructor added later is not discovered automatically"],
        "post": post,
    }


def post(tier, cm):
    """run-time half: conversion-chain / ZstCache grid"""
    import engines
    rc, res = engines.run_grid("C19", tier)
    if res is None:
        return 2, {}, None
    cov = {"grid_runtime_half": {k: res[k] for k in ("evaluations", "distinct_nontrivial", "rule", "samples", "violation_count")}}
    ev = None
    if res["violation_count"]:
        v = res["violations"][0]
        ev = {"engine": "grid", "grid": "c19", "case": v["case"], "message": v["message"], "tier": tier}
    if ev is None and rc != 2:
        # every slice / str / header+slice value is written through a builder: a builder that completes without the
        # caller having supplied every element hands out a value nobody constructed (builders grid, shared with C18)
        rc2, res2 = engines.run_grid("C18", tier)
        if res2 is None:
            return 2, cov, None
        cov["grid_builders"] = {k: res2[k] for k in ("evaluations", "distinct_nontrivial", "rule", "samples", "violation_count")}
        if res2["violation_count"]:
            v = res2["violations"][0]
            ev = {"engine": "grid", "grid": "c18", "case": v["case"], "message": v["message"], "tier": tier}
        rc = max(rc, rc2)
    return rc, cov, ev
