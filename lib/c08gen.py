"""C08 (compile-time half): the phase protocol relies on a MarkedArena being a LINEAR token of "this arena is fully marked now":
`finalize` and `start_sweeping` consume it, it borrows the arena mutably (no collection or mutation of the arena while it exists),
and it cannot be kept across a collection call. (Seeded: `finalize(&mut self)` plus a `start_sweeping` that trusts the token.)"""
from probes import Probe

H = """#![forbid(unsafe_code)]
#![allow(unused)]
use gc_arena::{Arena, Gc, Lock, Rootable, arena::MarkedArena};
type R = Rootable![Gc<'_, Lock<u32>>];
fn arena() -> Arena<R> { Arena::new(|mc| Gc::new(mc, Lock::new(1))) }
"""
NEG = {
    "finalize_twice": "let mut m = a.finish_marking().unwrap(); m.finalize(|_, _| ()); m.finalize(|_, _| ());",
    "finalize_then_start_sweeping": "let mut m = a.finish_marking().unwrap(); m.finalize(|_, _| ()); m.start_sweeping();",
    "start_sweeping_twice": "let mut m = a.finish_marking().unwrap(); m.start_sweeping(); m.start_sweeping();",
    "start_sweeping_then_finalize": "let mut m = a.finish_marking().unwrap(); m.start_sweeping(); m.finalize(|_, _| ());",
    "mutate_while_marked_arena_alive": "let mut m = a.finish_marking().unwrap(); a.mutate(|_, _| ()); m.start_sweeping();",
    "collect_while_marked_arena_alive": "let mut m = a.finish_marking().unwrap(); a.collect_debt(); m.start_sweeping();",
    "second_token_while_first_alive": "let mut m = a.finish_marking().unwrap(); let m2 = a.mark_debt(); m.start_sweeping();",
    "token_kept_across_finish_cycle": "let mut m = a.finish_marking().unwrap(); a.finish_cycle(); m.finalize(|_, _| ());",
    "token_outlives_arena": "let mut m = { let mut b = arena(); b.finish_marking().unwrap() }; m.start_sweeping();",
    "token_cloned": "let mut m = a.finish_marking().unwrap(); let m2 = m.clone(); m.start_sweeping(); m2.start_sweeping();",
    "token_returned_from_finalize": "let mut m = a.finish_marking().unwrap(); let fc2 = m.finalize(|fc, _| fc);",
    "token_forged": "let m = MarkedArena(&mut a); m.finalize(|_, _| ());",
    "token_inner_arena_used": "let mut m = a.finish_marking().unwrap(); m.0.finish_cycle(); m.finalize(|_, _| ());",
    "token_inner_arena_taken": "let mut m = a.finish_marking().unwrap(); let MarkedArena(inner) = m; inner.finish_cycle();",
    "is_dead_with_mutation": "a.mutate(|mc, root| { let _ = Gc::is_dead(mc, *root); });",
    "weak_is_dead_with_mutation": "a.mutate(|mc, root| { let _ = Gc::downgrade(*root).is_dead(mc); });",
    "resurrect_with_mutation": "a.mutate(|mc, root| { Gc::resurrect(mc, *root); });",
    "weak_resurrect_with_mutation": "a.mutate(|mc, root| { let _ = Gc::downgrade(*root).resurrect(mc); });",
    "is_dead_with_foreign_finalization": "let mut b = arena(); b.finish_marking().unwrap().finalize(|fcb, _| { a.mutate(|_, ra| { let _ = Gc::is_dead(fcb, *ra); }); });",
    "weak_is_dead_with_foreign_finalization": "let mut b = arena(); b.finish_marking().unwrap().finalize(|fcb, _| { a.mutate(|_, ra| { let _ = Gc::downgrade(*ra).is_dead(fcb); }); });",
    "resurrect_with_foreign_finalization": "let mut b = arena(); b.finish_marking().unwrap().finalize(|fcb, _| { a.mutate(|_, ra| { Gc::resurrect(fcb, *ra); }); });",
    "weak_resurrect_with_foreign_finalization": "let mut b = arena(); b.finish_marking().unwrap().finalize(|fcb, _| { a.mutate(|_, ra| { let _ = Gc::downgrade(*ra).resurrect(fcb); }); });",
    "finalization_from_mutation": "a.mutate(|mc, root| { let fc: &gc_arena::Finalization<'_> = mc; });",
    "finalization_constructed": "a.mutate(|mc, root| { let fc = gc_arena::Finalization::from(mc); });",
    "finalization_context_kept": "let mut keep = None; a.finish_marking().unwrap().finalize(|fc, _| { keep = Some(fc); }); let _k = keep;",
}
POS = {
    "finalize_once_then_new_token": "{ let mut m = a.finish_marking().unwrap(); m.finalize(|_, _| ()); } a.finish_marking().unwrap().start_sweeping(); a.finish_cycle();",
    "queries_with_own_finalization": "a.finish_marking().unwrap().finalize(|fc, root| { let w = Gc::downgrade(*root); let _ = (Gc::is_dead(fc, *root), w.is_dead(fc), w.resurrect(fc)); Gc::resurrect(fc, *root); }); a.finish_cycle();",
    "foreign_mutate_inside_finalize": "let mut b = arena(); b.finish_marking().unwrap().finalize(|fcb, rb| { a.mutate(|_, ra| { let _ = (Gc::is_dead(fcb, *rb), ra.get()); }); });",
    "mark_debt_token": "if let Some(mut m) = a.mark_debt() { m.finalize(|_, _| ()); } a.finish_cycle();",
}


def wrap(body):
    return H + "fn main() {\n    let mut a = arena();\n    " + body + "\n}\n"


def generate(tier):
    ps = [Probe(f"marked_arena_linear/{k}", wrap(v), "reject", group="marked_arena") for k, v in NEG.items()]
    ps += [Probe(f"marked_arena_linear/twin/{k}", wrap(v), "accept", group="marked_arena") for k, v in POS.items()]
    return {"probes": ps, "rule": "a MarkedArena is consumed by finalize / start_sweeping (no second use), borrows its arena mutably (no mutate / collection / second token while it lives), cannot outlive the arena, be cloned, forged or opened (no access to the arena behind it), or leak its Finalization context; is_dead / resurrect (strong and weak) need the Finalization context of the SAME arena - a Mutation or another arena's Finalization is rejected, and no Finalization can be made from a Mutation; twins: one use per token compiles"}
