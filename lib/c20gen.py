"""C20 (compile-time half): what keeps two arenas apart at run time is the brand. Every way of using a pointer, a weak
pointer, a context or a root set of arena 1 with arena 2 (and every brand-preserving conversion applied first) under
nested callbacks must be rejected by the compiler; the same uses within one arena compile."""
from probes import Probe
import c12gen

EXTRA_FIELDS = '''
#[derive(Collect)]
#[collect(no_drop)]
struct R2<'gc> {
    any: Gc<'gc, Lock<Option<Gc<'gc, ()>>>>,
    dynp: Gc<'gc, Lock<Option<Gc<'gc, dyn std::fmt::Debug>>>>,
    weak: Gc<'gc, Lock<Option<GcWeak<'gc, Lock<u32>>>>>,
    slice: Gc<'gc, Lock<Option<gc_arena::GcSlice<'gc, u8>>>>,
    thin: Gc<'gc, Lock<Option<gc_arena::GcThinSlice<'gc, u8>>>>,
    arr: Gc<'gc, [u8; 2]>,
    sl: gc_arena::GcSlice<'gc, u8>,
    dbg: Gc<'gc, u32>,
    g: Gc<'gc, Lock<u32>>,
}
fn make2<'gc>(mc: &Mutation<'gc>) -> R2<'gc> {
    R2 { any: Gc::new(mc, Lock::new(None)), dynp: Gc::new(mc, Lock::new(None)), weak: Gc::new(mc, Lock::new(None)), slice: Gc::new(mc, Lock::new(None)), thin: Gc::new(mc, Lock::new(None)),
         arr: Gc::new(mc, [1, 2]), sl: gc_arena::GcSlice::new_slice(mc, &[1, 2, 3]), dbg: Gc::new(mc, 7), g: Gc::new(mc, Lock::new(1)) }
}
fn arena2() -> Arena<Rootable![R2<'_>]> { Arena::new(|mc| make2(mc)) }
'''
# conversions applied to a pointer of arena 1, result stored in arena 2
CONV = {
    "erase": ("r2.any.set(mc2, Some(Gc::erase(r1.g)));", "r2.any.set(mc2, Some(Gc::erase(r2.g)));"),
    "erase_kind": ("r2.slice.set(mc2, Some(Gc::erase_kind(r1.sl)));", None),
    "unsize_dyn": ("r2.dynp.set(mc2, Some(gc_arena::unsize!(r1.dbg => dyn std::fmt::Debug)));", "r2.dynp.set(mc2, Some(gc_arena::unsize!(r2.dbg => dyn std::fmt::Debug)));"),
    "unsize_slice": ("r2.any.set(mc2, Some(Gc::erase(gc_arena::unsize!(r1.arr => [u8]))));", "r2.any.set(mc2, Some(Gc::erase(gc_arena::unsize!(r2.arr => [u8]))));"),
    "downgrade": ("r2.weak.set(mc2, Some(Gc::downgrade(r1.g)));", "r2.weak.set(mc2, Some(Gc::downgrade(r2.g)));"),
    "downgrade_upgrade_own_mc": ("r2.any.set(mc2, Gc::downgrade(r1.g).upgrade(mc1).map(Gc::erase));", None),
    "downgrade_upgrade_foreign_mc": ("let _ = Gc::downgrade(r1.g).upgrade(mc2);", "let _ = Gc::downgrade(r2.g).upgrade(mc2);"),
    "unsize_weak": ("let w: GcWeak<dyn std::fmt::Debug> = gc_arena::unsize!(Gc::downgrade(r1.dbg) => dyn std::fmt::Debug); r2.any.set(mc2, w.upgrade(mc2).map(Gc::erase));", None),
    "as_thin": ("r2.thin.set(mc2, Some(Gc::as_thin(r1.sl)));", "r2.thin.set(mc2, Some(Gc::as_thin(r2.sl)));"),
    "as_thin_as_fat": ("r2.slice.set(mc2, Some(Gc::as_fat(Gc::as_thin(r1.sl))));", "r2.slice.set(mc2, Some(Gc::as_fat(Gc::as_thin(r2.sl))));"),
    "weak_erase": ("let w = GcWeak::erase(Gc::downgrade(r1.g)); r2.any.set(mc2, w.upgrade(mc2));", None),
    "as_ref_store": ("let r: &Lock<u32> = Gc::as_ref(r1.g); let _w = Gc::write(mc2, r1.g);", None),
    "zst_cache": ("let c = gc_arena::zst_cache::ZstCache::<8>::new(mc1); r2.any.set(mc2, Some(Gc::erase(c.alloc(mc1, ()))));", "let c = gc_arena::zst_cache::ZstCache::<8>::new(mc2); r2.any.set(mc2, Some(Gc::erase(c.alloc(mc2, ()))));"),
    "builder_foreign_mc": ("let b = GcBuilder::<Lock<u32>>::new(); let g = b.write(mc1, Lock::new(1)); r2.any.set(mc2, Some(Gc::erase(g)));", None),
    "slice_builder_foreign": ("let s = gc_arena::GcSliceBuilder::<u8>::new(2).write_slice_with(mc1, |_| 0); r2.slice.set(mc2, Some(s));", "let s = gc_arena::GcSliceBuilder::<u8>::new(2).write_slice_with(mc2, |_| 0); r2.slice.set(mc2, Some(s));"),
}


def generate(tier):
    ps = []
    nest = "let a1 = arena2(); let a2 = arena2();\na1.mutate(|mc1, r1| {{ a2.mutate(|mc2, r2| {{ {USE} }}); }});"
    for name, (bad, good) in CONV.items():
        ps.append(Probe(f"convert_then_cross/{name}", c12gen.prog(EXTRA_FIELDS, nest.format(USE=bad)), "reject", group="convert_then_cross"))
        if good:
            ps.append(Probe(f"convert_then_cross/{name}/twin", c12gen.prog(EXTRA_FIELDS, nest.format(USE=good)), "accept", group="convert_then_cross"))
    # the cross-arena part of the C12 grammar
    for p in c12gen.generate(tier)["probes"]:
        if p.group == "cross":
            ps.append(p)
    return {"probes": ps,
            "rule": f"{len(CONV)} brand-preserving conversions (erase, erase_kind, unsize to dyn / slice, downgrade, upgrade with own / foreign context, weak unsize / erase, as_thin, as_fat, ZstCache, builders) applied to a pointer of arena 1 and the result stored in or used with arena 2 under nested mutate, plus the 30 cross-arena probes of the C12 grammar (nested mutate and nested finalize, root swap, foreign builder completion); each negative has a positive twin within one arena"}
