"""C13 — no adoption without a write barrier: typed term grammar over Write sources x carriers x projection
chains x sinks. The generator types terms under an OVER-approximate model (as if DerefWrite / IndexWrite existed for
every smart pointer and container, Gc included); rustc decides which really type-check; every accepted program is run
in the scenario 'holder black in a fully marked arena, fresh white child' under a reachable-but-destructed oracle."""
from probes import Probe

L, R, O = ("L",), ("R",), ("O",)
FIELDS = {
    "slot": L, "rslot": R, "oslot": O,
    "boxed": ("box", L), "rc": ("rc", L), "arc": ("arc", L), "vec": ("vec", L), "arr": ("arr", L), "deque": ("deque", L),
    "btree": ("btree", L), "hash": ("hash", L), "opt": ("opt", L), "res": ("res", L), "gc": ("gc", L),
    "inner": ("Inner",), "gcinner": ("gc", ("Inner",)),
    "boxrc": ("box", ("rc", L)), "rcbox": ("rc", ("box", L)), "vecrc": ("vec", ("rc", L)), "optrc": ("opt", ("rc", L)),
    "rcvec": ("rc", ("vec", L)), "rcr": ("rc", R), "rco": ("rc", O), "boxgc": ("box", ("gc", L)), "vecgc": ("vec", ("gc", L)),
    "gcr": ("gc", R), "gco": ("gc", O), "gco2": ("gc", O),
}
NOCLONE = {"inner"}


def rust_ty(t):
    k = t[0]
    if k == "L":
        return "Lk<'gc>"
    if k == "R":
        return "RefLock<Option<Gc<'gc, Child>>>"
    if k == "O":
        return "OnceLock<Gc<'gc, Child>>"
    if k == "Inner":
        return "Inner<'gc>"
    inner = rust_ty(t[1])
    return {"box": f"Box<{inner}>", "rc": f"Rc<{inner}>", "arc": f"Arc<{inner}>", "vec": f"Vec<{inner}>", "arr": f"[{inner}; 1]", "deque": f"VecDeque<{inner}>",
            "btree": f"BTreeMap<u8, {inner}>", "hash": f"HashMap<u8, {inner}>", "opt": f"Option<{inner}>", "res": f"Result<{inner}, ()>", "gc": f"Gc<'gc, {inner}>"}[k]


def rust_new(t):
    k = t[0]
    if k == "L":
        return "Lock::new(None)"
    if k == "R":
        return "RefLock::new(None)"
    if k == "O":
        return "OnceLock::new()"
    if k == "Inner":
        return "Inner { slot: Lock::new(None) }"
    inner = rust_new(t[1])
    return {"box": f"Box::new({inner})", "rc": f"Rc::new({inner})", "arc": f"Arc::new({inner})", "vec": f"vec![{inner}]", "arr": f"[{inner}]", "deque": f"VecDeque::from(vec![{inner}])",
            "btree": f"BTreeMap::from([(0u8, {inner})])", "hash": f"HashMap::from([(0u8, {inner})])", "opt": f"Some({inner})", "res": f"Ok({inner})", "gc": f"Gc::new(mc, {inner})"}[k]


def rust_holds(expr, t):
    """expression (bool): does the storage reached from `expr` (a place of type t) hold the child?"""
    k = t[0]
    if k == "L":
        return f"{expr}.get().is_some()"
    if k == "R":
        return f"{expr}.borrow().is_some()"
    if k == "O":
        return f"{expr}.get().is_some()"
    if k == "Inner":
        return f"{expr}.slot.get().is_some()"
    if k in ("box", "rc", "arc", "gc"):
        return rust_holds(f"(*{expr})", t[1])
    if k in ("vec", "arr", "deque"):
        return rust_holds(f"{expr}[0]", t[1])
    if k in ("btree", "hash"):
        return rust_holds(f"{expr}[&0u8]", t[1])
    return rust_holds(f"{expr}.as_ref().unwrap()", t[1])


def prelude():
    fields = "\n".join(f"    {f}: {rust_ty(t)}," for f, t in FIELDS.items())
    news = "\n".join(f"        {f}: {rust_new(t)}," for f, t in FIELDS.items())
    shared = {"gcr", "gco", "gco2", "rc", "arc", "gc", "gcinner", "boxrc", "rcbox", "vecrc", "optrc", "rcvec", "rcr", "rco", "boxgc", "vecgc"}
    conews = "\n".join(f"        {f}: " + (f"h.{f}.clone()" if f in shared else rust_new(t)) + "," for f, t in FIELDS.items())
    holds = " ||\n        ".join(rust_holds(f"h.{f}", t) for f, t in FIELDS.items())
    return r'''#![forbid(unsafe_code)]
#![allow(unused, unused_must_use)]
use gc_arena::{Arena, Collect, Gc, GcWeak, Lock, RefLock, Rootable, Mutation, barrier::{Write, field, unlock}, lock::OnceLock};
use std::{rc::Rc, sync::Arc, cell::{Cell, RefCell}, collections::{VecDeque, BTreeMap, HashMap}};
use std::sync::atomic::{AtomicBool, Ordering};

static DROPPED: AtomicBool = AtomicBool::new(false);
#[derive(Collect)]
#[collect(require_static)]
struct Child(u32);
impl Drop for Child { fn drop(&mut self) { DROPPED.store(true, Ordering::SeqCst); } }
type Lk<'gc> = Lock<Option<Gc<'gc, Child>>>;
#[derive(Collect)]
#[collect(no_drop)]
struct Inner<'gc> { slot: Lk<'gc> }
#[derive(Collect)]
#[collect(no_drop)]
struct Holder<'gc> {
''' + fields + r'''
}
fn holder<'gc>(mc: &Mutation<'gc>) -> Gc<'gc, Holder<'gc>> {
    Gc::new(mc, Holder {
''' + news + r'''
    })
}
/// a fresh (white) object sharing every shared-ownership field with `h`
fn co_owner<'gc>(mc: &Mutation<'gc>, h: Gc<'gc, Holder<'gc>>) -> Gc<'gc, Holder<'gc>> {
    Gc::new(mc, Holder {
''' + conews + r'''
    })
}
fn holds<'gc>(h: &Holder<'gc>) -> bool {
    ''' + holds + r'''
}
/*EXT*/
#[derive(Collect)]
#[collect(no_drop)]
struct Root<'gc> { h: Gc<'gc, Holder<'gc>>, ext: Ext<'gc> }

fn scenario(sweep_first: bool) -> i32 {
    DROPPED.store(false, Ordering::SeqCst);
    let mut arena = Arena::<Rootable![Root<'_>]>::new(|mc| Root { h: holder(mc), ext: ext(mc) });
    // the holder (and everything it owns or co-owns) is black, the arena fully marked
    if sweep_first { arena.finish_cycle(); }
    arena.finish_marking();
    arena.mutate(|mc, root| {
        let h: Gc<'_, Holder<'_>> = root.h;
        let child = Gc::new(mc, Child(7)); // fresh, white
        attempt(mc, h, child, &root.ext);
    });
    arena.finish_cycle();
    let reachable = arena.mutate(|_, root| holds(&root.h) || ext_holds(&root.ext));
    if reachable && DROPPED.load(Ordering::SeqCst) {
        println!("C01 violated: the child is reachable from the root through the holder but was destructed");
        return 1;
    }
    arena.finish_cycle();
    let reachable = arena.mutate(|_, root| holds(&root.h) || ext_holds(&root.ext));
    if reachable && DROPPED.load(Ordering::SeqCst) {
        println!("C01 violated (second cycle): reachable child destructed");
        return 1;
    }
    0
}
fn main() {
    let rc = scenario(false) | scenario(true);
    std::process::exit(rc);
}
'''


PRELUDE = None


DEFAULT_EXT = "type Ext<'gc> = std::marker::PhantomData<&'gc ()>;\nfn ext<'gc>(mc: &Mutation<'gc>) -> Ext<'gc> { std::marker::PhantomData }\nfn ext_holds<'gc>(e: &Ext<'gc>) -> bool { false }\n"


def program(attempt_body, extra_items="", ext=None):
    global PRELUDE
    if PRELUDE is None:
        PRELUDE = prelude()
    return PRELUDE.replace("/*EXT*/", ext or DEFAULT_EXT) + extra_items + "\nfn attempt<'gc>(mc: &'gc Mutation<'gc>, h: Gc<'gc, Holder<'gc>>, child: Gc<'gc, Child>, ext: &Ext<'gc>) {\n    " + attempt_body + "\n}\n"


def sink(t, term):
    if t == L:
        return [("set", f"{term}.unlock().set(Some(child));")]
    if t == R:
        return [("borrow_mut", f"*{term}.unlock().borrow_mut() = Some(child);")]
    if t == O:
        return [("once_set", f"let _ = {term}.unlock().set(child);")]
    return []


def projections(t):
    """over-approximate typing: (name, result type, expression builder)"""
    k = t[0]
    out = []
    if k in ("ref", "box", "rc", "arc", "gc"):
        out.append(("deref", t[1], lambda e: f"{e}.as_deref()"))
    if k == "vec":
        out.append(("deref", ("slice", t[1]), lambda e: f"{e}.as_deref()"))
    if k in ("vec", "arr", "deque", "slice"):
        out.append(("idx", t[1], lambda e: f"(&{e}[0])"))
        if k != "deque":
            out.append(("range", ("slice", t[1]), lambda e: f"(&{e}[0..1])"))
    if k in ("btree", "hash"):
        out.append(("key", t[1], lambda e: f"(&{e}[&0u8])"))
    if k in ("opt",):
        out.append(("as_write", t[1], lambda e: f"{e}.as_write().unwrap()"))
    if k in ("res",):
        out.append(("as_write", t[1], lambda e: f"{e}.as_write().ok().unwrap()"))
    if k == "Holder":
        for f, ft in FIELDS.items():
            out.append((f"field_{f}", ft, lambda e, f=f: f"field!({e}, Holder, {f})"))
    if k == "Inner":
        out.append(("field_slot", L, lambda e: f"field!({e}, Inner, slot)"))
    if k == "tuple":
        pass
    return out


def terms(t, expr, depth, path):
    """all (path, final type, expression) reaching a lock type within `depth` projections"""
    res = []
    if t in (L, R, O):
        res.append((path, t, expr))
        return res
    if depth == 0:
        return res
    for name, rt, build in projections(t):
        res.extend(terms(rt, build(expr), depth - 1, path + [name]))
    return res


def generate(tier):
    depth = 5 if tier == "thorough" else 4
    ps = []
    seen = set()

    def add(pid, body, expect="reject_or_run", group="", items="", ext=None):
        if pid in seen:
            return
        seen.add(pid)
        ps.append(Probe(pid, program(body, items, ext), expect, group=group))

    # positive controls: the sanctioned adoption compiles, runs clean
    add("control/gc_write_field", "field!(Gc::write(mc, h), Holder, slot).unlock().set(Some(child));", "run", "control")
    add("control/gc_lock_set", "h.gc.set(mc, Some(child));", "run", "control")
    add("control/unlock_macro", "unlock!(Gc::write(mc, h), Holder, slot).set(Some(child));", "run", "control")
    add("control/no_adoption", "let _ = child;", "run", "control")
    add("control/gc_reflock_borrow_mut", "*h.gcr.borrow_mut(mc) = Some(child);", "run", "control")
    add("control/gc_oncelock_set", "let _ = h.gco.set(mc, child);", "run", "control")
    add("control/gc_oncelock_get_or_init", "let _ = h.gco2.get_or_init(mc, || child);", "run", "control")
    add("control/gc_unlock", "h.gc.unlock(mc).set(Some(child));", "run", "control")
    # ---- Gc::write on the (black) holder itself and on a white co-owner
    for src, pre, base in (("gc_write_holder", "", "Gc::write(mc, h)"), ("gc_write_coowner", "let w = co_owner(mc, h); ", "Gc::write(mc, w)")):
        for path, t, e in terms(("Holder",), base, depth + 1 if src == "gc_write_holder" else depth + 1, []):
            for sname, stmt in sink(t, e):
                add(f"{src}/{'.'.join(path)}/{sname}", pre + stmt, group=src)
    # ---- Write::from_mut on a reference to / a clone of a field of the holder, and through local carriers
    for f, ft in FIELDS.items():
        for path, t, e in terms(("ref", ft), f"Write::from_mut(&mut &h.{f})", depth, []):
            for sname, stmt in sink(t, e):
                add(f"from_mut_ref/{f}/{'.'.join(path)}/{sname}", stmt, group="from_mut_ref")
        if f not in NOCLONE:
            for path, t, e in terms(ft, f"Write::from_mut(&mut h.{f}.clone())", depth, []):
                for sname, stmt in sink(t, e):
                    add(f"from_mut_clone/{f}/{'.'.join(path)}/{sname}", stmt, group="from_mut_clone")
        for path, t, e in terms(ft, f"Write::from_static(&h.{f})", depth, []):
            for sname, stmt in sink(t, e):
                add(f"from_static/{f}/{'.'.join(path)}/{sname}", stmt, "reject", group="from_static")
    carriers = {"box": "Box::new({x})", "rc": "Rc::new({x})", "arc": "Arc::new({x})", "vec": "vec![{x}]", "arr": "[{x}]", "opt": "Some({x})", "res": "Ok::<_, ()>({x})", "deque": "VecDeque::from(vec![{x}])", "btree": "BTreeMap::from([(0u8, {x})])", "hash": "HashMap::from([(0u8, {x})])"}
    for c, mk in carriers.items():
        for f in ("slot", "rslot", "oslot", "rc", "gc", "vecrc"):
            ct = (c, ("ref", FIELDS[f]))
            for path, t, e in terms(ct, "Write::from_mut(&mut " + mk.format(x=f"&h.{f}") + ")", depth + 1, []):
                for sname, stmt in sink(t, e):
                    add(f"from_mut_carrier/{c}/{f}/{'.'.join(path)}/{sname}", stmt, group="from_mut_carrier")
    # ---- fixed probes outside the term grammar
    fixed = {
        "forge_write_literal": ("let w = Write { __inner: &h.slot }; w.as_deref().unlock().set(Some(child));", ""),
        "assume_without_unsafe": ("Write::assume(&h.slot).unlock().set(Some(child));", ""),
        "as_cell_without_unsafe": ("h.slot.as_cell().set(Some(child));", ""),
        "as_ref_cell_without_unsafe": ("*h.rslot.as_ref_cell().borrow_mut() = Some(child);", ""),
        "as_once_cell_without_unsafe": ("let _ = h.oslot.as_once_cell().set(child);", ""),
        "unlock_unchecked_without_unsafe": ("use gc_arena::barrier::Unlock; h.slot.unlock_unchecked().set(Some(child));", ""),
        "field_macro_with_unsafe_argument": ("field!(Write::assume(&*h), Holder, slot).unlock().set(Some(child));", ""),
        "unlock_macro_with_unsafe_argument": ("unlock!(Write::assume(&*h), Holder, slot).set(Some(child));", ""),
        "field_macro_with_unsafe_cell_argument": ("field!(Gc::write(mc, h), Holder, slot).unlock(); field!({ h.slot.as_cell().set(Some(child)); Gc::write(mc, h) }, Holder, slot);", ""),
        "unsize_macro_with_unsafe_argument": ("let p = Gc::as_ptr(h.gc); let _d = gc_arena::unsize!(Gc::from_ptr(p) => dyn std::any::Any);", ""),
        "lock_has_no_safe_setter": ("h.slot.set(Some(child));", ""),
        "reflock_has_no_safe_borrow_mut": ("*h.rslot.borrow_mut() = Some(child);", ""),
        "field_through_gc_deref": ("field!(field!(Gc::write(mc, h), Holder, gcinner), Inner, slot).unlock().set(Some(child));", ""),
        "field_on_plain_reference": ("field!(&*h, Holder, slot).unlock().set(Some(child));", ""),
        "field_through_write_of_reference": ("let mut r = &*h; field!(Write::from_mut(&mut r), Holder, slot).unlock().set(Some(child));", ""),
        "deref_then_from_static": ("Write::from_static(&*h.gc).unlock().set(Some(child));", ""),
        "static_wrapper_around_cell": ("let s = Gc::new(mc, gc_arena::Static(Cell::new(None))); s.0.set(Some(child));", ""),
        "gc_new_static_cell": ("let s = Gc::new_static(mc, Cell::new(None)); s.set(Some(child));", ""),
        "user_unlock_impl": ("use gc_arena::barrier::Unlock; let m = My(&h.slot); Write::from_mut(&mut {m}).unlock().set(Some(child));", "struct My<'a, 'gc>(&'a Lk<'gc>);\nimpl<'a, 'gc> gc_arena::barrier::Unlock for My<'a, 'gc> { type Unlocked = Cell<Option<Gc<'gc, Child>>>; unsafe fn unlock_unchecked(&self) -> &Self::Unlocked { todo!() } }\n"),
        "user_deref_write_impl": ("let m = My(&h.slot); Write::from_mut(&mut {m}).as_deref().unlock().set(Some(child));", "struct My<'a, 'gc>(&'a Lk<'gc>);\nimpl<'a, 'gc> std::ops::Deref for My<'a, 'gc> { type Target = Lk<'gc>; fn deref(&self) -> &Lk<'gc> { self.0 } }\nunsafe impl<'a, 'gc> gc_arena::barrier::DerefWrite for My<'a, 'gc> {}\n"),
        "user_deref_without_deref_write": ("let m = My(&h.slot); Write::from_mut(&mut {m}).as_deref().unlock().set(Some(child));", "struct My<'a, 'gc>(&'a Lk<'gc>);\nimpl<'a, 'gc> std::ops::Deref for My<'a, 'gc> { type Target = Lk<'gc>; fn deref(&self) -> &Lk<'gc> { self.0 } }\n"),
        "user_index_write_impl": ("let m = My(&h.slot); (&Write::from_mut(&mut {m})[0]).unlock().set(Some(child));", "struct My<'a, 'gc>(&'a Lk<'gc>);\nimpl<'a, 'gc> std::ops::Index<usize> for My<'a, 'gc> { type Output = Lk<'gc>; fn index(&self, _: usize) -> &Lk<'gc> { self.0 } }\nunsafe impl<'a, 'gc> gc_arena::barrier::IndexWrite<usize> for My<'a, 'gc> {}\n"),
        "user_index_without_index_write": ("let m = My(&h.slot); (&Write::from_mut(&mut {m})[0]).unlock().set(Some(child));", "struct My<'a, 'gc>(&'a Lk<'gc>);\nimpl<'a, 'gc> std::ops::Index<usize> for My<'a, 'gc> { type Output = Lk<'gc>; fn index(&self, _: usize) -> &Lk<'gc> { self.0 } }\n"),
    }
    # plain Cell / RefCell holding a pointer inside an object that is rooted and black (allocated before marking)
    def ext_for(attrs_struct, attrs_field, cell):
        new = "Cell::new(None)" if cell == "Cell" else "RefCell::new(None)"
        hold = "e.c.get().is_some()" if cell == "Cell" else "e.c.borrow().is_some()"
        return (f"#[derive(Collect)]\n#[collect({attrs_struct})]\nstruct H2<'gc> {{ {attrs_field} c: {cell}<Option<Gc<'gc, Child>>> }}\n"
                f"type Ext<'gc> = Gc<'gc, H2<'gc>>;\nfn ext<'gc>(mc: &Mutation<'gc>) -> Ext<'gc> {{ Gc::new(mc, H2 {{ c: {new} }}) }}\nfn ext_holds<'gc>(e: &Ext<'gc>) -> bool {{ {hold} }}\n")
    for cell, stmt in (("Cell", "ext.c.set(Some(child));"), ("RefCell", "*ext.c.borrow_mut() = Some(child);")):
        for sname, sattr in (("no_drop", "no_drop"), ("no_drop_bound_empty", "no_drop, bound = \"\""), ("no_drop_bound_where", "no_drop, bound = \"where Child: Clone\""), ("unsafe_drop", "unsafe_drop"),
                             ("require_static", "require_static"), ("require_static_bound_empty", "require_static, bound = \"\""), ("require_static_bound_where", "require_static, bound = \"where Child: 'static\"")):
            for fname, fattr in (("plain", ""), ("field_require_static", "#[collect(require_static)]")):
                if sname.startswith("require_static") and fname != "plain":
                    continue
                add(f"cell_under_derive/{cell}/{sname}/{fname}", stmt, group="cell_under_derive", ext=ext_for(sattr, fattr, cell))
    # the same with a generic parameter carrying the pointer type
    gext = ("#[derive(Collect)]\n#[collect({a})]\nstruct H2<T> {{ {f} c: RefCell<Option<T>> }}\n"
            "type Ext<'gc> = Gc<'gc, H2<Gc<'gc, Child>>>;\nfn ext<'gc>(mc: &Mutation<'gc>) -> Ext<'gc> {{ Gc::new(mc, H2 {{ c: RefCell::new(None) }}) }}\nfn ext_holds<'gc>(e: &Ext<'gc>) -> bool {{ e.c.borrow().is_some() }}\n")
    for sname, sattr in (("no_drop", "no_drop"), ("no_drop_bound_empty", "no_drop, bound = \"\""), ("require_static", "require_static"), ("require_static_bound_clone", "require_static, bound = \"where T: Clone\"")):
        for fname, fattr in (("plain", ""), ("field_require_static", "#[collect(require_static)]")):
            if sname.startswith("require_static") and fname != "plain":
                continue
            add(f"cell_under_derive/generic/{sname}/{fname}", "*ext.c.borrow_mut() = Some(child);", group="cell_under_derive", ext=gext.format(a=sattr, f=fattr))
    # client types given a no-op Collect impl by static_collect!: only sound for 'static instantiations
    sc_ext = ("struct H2<T>(Cell<Option<T>>);\n{macro}\n"
              "type Ext<'gc> = Gc<'gc, H2<{inst}>>;\nfn ext<'gc>(mc: &Mutation<'gc>) -> Ext<'gc> {{ Gc::new(mc, H2(Cell::new(None))) }}\nfn ext_holds<'gc>(e: &Ext<'gc>) -> bool {{ {holds} }}\n")
    for mname, macro in (("generic", "gc_arena::static_collect!(<T> H2<T>);"), ("generic_where_clone", "gc_arena::static_collect!(<T> H2<T> where T: Clone);"),
                         ("generic_where_copy_default", "gc_arena::static_collect!(<T> H2<T> where T: Copy, T: Default);"), ("concrete_static", "gc_arena::static_collect!(H2<Gc<'static, Child>>);")):
        add(f"static_collect/{mname}/gc_instance", "ext.0.set(Some(child));", group="static_collect",
            ext=sc_ext.format(macro=macro, inst="Gc<'gc, Child>", holds="{ let v = e.0.take(); let r = v.is_some(); e.0.set(v); r }"))
    add("control/static_collect_generic_static_instance", "ext.0.set(Some(5u32)); let _ = child;", "run", "control",
        ext=sc_ext.format(macro="gc_arena::static_collect!(<T> H2<T>);", inst="u32", holds="false"))
    add("control/static_collect_generic_where_static_instance", "ext.0.set(Some(5u32)); let _ = child;", "run", "control",
        ext=sc_ext.format(macro="gc_arena::static_collect!(<T> H2<T> where T: Clone);", inst="u32", holds="false"))
    for name, (body, items) in fixed.items():
        add(f"fixed/{name}", body.replace("{m}", "m"), "reject_or_run", group="fixed", items=items)
    # macro forms and method names that do not exist today: a positional (tuple-struct) field arm, an expected type that
    # would force a deref coercion through a Gc field, Unlock on a pointer, and Cell-style mutators on the lock types
    t2_ext = ("#[derive(Collect)]\n#[collect(no_drop)]\nstruct T2<'gc>(u8, Gc<'gc, Lk<'gc>>, Lk<'gc>);\n"
              "type Ext<'gc> = Gc<'gc, T2<'gc>>;\nfn ext<'gc>(mc: &Mutation<'gc>) -> Ext<'gc> { Gc::new(mc, T2(0, Gc::new(mc, Lock::new(None)), Lock::new(None))) }\n"
              "fn ext_holds<'gc>(e: &Ext<'gc>) -> bool { e.1.get().is_some() || e.2.get().is_some() }\n")
    add("macro_forms/field_positional_own_lock", "field!(Gc::write(mc, *ext), T2, 2).unlock().set(Some(child));", group="macro_forms", ext=t2_ext)
    add("macro_forms/field_positional_through_gc", "let w: &Write<Lk<'_>> = field!(Gc::write(mc, *ext), T2, 1); w.unlock().set(Some(child));", group="macro_forms", ext=t2_ext)
    add("macro_forms/unlock_positional_through_gc", "let c: &Cell<Option<Gc<'_, Child>>> = unlock!(Gc::write(mc, *ext), T2, 1); c.set(Some(child));", group="macro_forms", ext=t2_ext)
    add("macro_forms/field_named_coerced_through_gc", "let w: &Write<Lk<'_>> = field!(Gc::write(mc, h), Holder, gc); w.unlock().set(Some(child));", group="macro_forms")
    add("macro_forms/field_named_coerced_through_box", "let w: &Write<Lk<'_>> = field!(Gc::write(mc, h), Holder, boxgc); w.unlock().set(Some(child));", group="macro_forms")
    for f, sinkstmt in (("gc", ".unlock().set(Some(child));"), ("gcr", ".unlock().borrow_mut().replace(child);"), ("gco", ".unlock().set(child);")):
        add(f"macro_forms/unlock_on_pointer_field/{f}", f"let _ = field!(Gc::write(mc, h), Holder, {f}){sinkstmt}", group="macro_forms")
    # unlock! on every holder field, from the barriered holder and from a white co-owner: the macro must stop at the field
    # itself (no method-call auto-deref into a lock owned by another allocation or shared through Rc / Arc / Box<Gc>)
    def leaf(t):
        return t[0] if t[0] in ("L", "R", "O", "Inner") else leaf(t[1])
    SINK = {"L": ".set(Some(child));", "R": ".borrow_mut().replace(child);", "O": ".set(child);"}
    for f, t in FIELDS.items():
        if leaf(t) == "Inner":
            continue
        for sname, src in (("holder", "Gc::write(mc, h)"), ("co_owner", "Gc::write(mc, co_owner(mc, h))")):
            add(f"macro_forms/unlock_macro/{sname}/{f}", f"let _ = unlock!({src}, Holder, {f}){SINK[leaf(t)]}", group="macro_forms")
    # std interior mutability other than Cell / RefCell holding a pointer under derive(Collect): no Collect impl may admit it
    STDCELLS = {
        "OnceCell": ("std::cell::OnceCell<Gc<'gc, Child>>", "std::cell::OnceCell::new()", "let _ = ext.c.set(child);", "e.c.get().is_some()"),
        "sync_OnceLock": ("std::sync::OnceLock<Gc<'gc, Child>>", "std::sync::OnceLock::new()", "let _ = ext.c.set(child);", "e.c.get().is_some()"),
        "Mutex": ("std::sync::Mutex<Option<Gc<'gc, Child>>>", "std::sync::Mutex::new(None)", "*ext.c.lock().unwrap() = Some(child);", "e.c.lock().unwrap().is_some()"),
        "RwLock": ("std::sync::RwLock<Option<Gc<'gc, Child>>>", "std::sync::RwLock::new(None)", "*ext.c.write().unwrap() = Some(child);", "e.c.read().unwrap().is_some()"),
        "Rc_RefCell": ("Rc<RefCell<Option<Gc<'gc, Child>>>>", "Rc::new(RefCell::new(None))", "*ext.c.borrow_mut() = Some(child);", "e.c.borrow().is_some()"),
        "Box_Cell": ("Box<Cell<Option<Gc<'gc, Child>>>>", "Box::new(Cell::new(None))", "ext.c.set(Some(child));", "{ let v = e.c.take(); let r = v.is_some(); e.c.set(v); r }"),
        "Option_OnceCell": ("Option<std::cell::OnceCell<Gc<'gc, Child>>>", "Some(std::cell::OnceCell::new())", "let _ = ext.c.as_ref().unwrap().set(child);", "e.c.as_ref().unwrap().get().is_some()"),
        "Vec_OnceCell": ("Vec<std::cell::OnceCell<Gc<'gc, Child>>>", "vec![std::cell::OnceCell::new()]", "let _ = ext.c[0].set(child);", "e.c[0].get().is_some()"),
    }
    for cname, (cty, cnew, stmt, hold) in STDCELLS.items():
        for sname, sattr in (("no_drop", "no_drop"), ("unsafe_drop", "unsafe_drop")):
            sx = (f"#[derive(Collect)]\n#[collect({sattr})]\nstruct H2<'gc> {{ c: {cty} }}\n"
                  f"type Ext<'gc> = Gc<'gc, H2<'gc>>;\nfn ext<'gc>(mc: &Mutation<'gc>) -> Ext<'gc> {{ Gc::new(mc, H2 {{ c: {cnew} }}) }}\nfn ext_holds<'gc>(e: &Ext<'gc>) -> bool {{ {hold} }}\n")
            add(f"cell_under_derive/std/{cname}/{sname}", stmt, group="cell_under_derive", ext=sx)
        # directly as the allocated value
        sx = (f"type Ext<'gc> = Gc<'gc, {cty}>;\nfn ext<'gc>(mc: &Mutation<'gc>) -> Ext<'gc> {{ Gc::new(mc, {cnew}) }}\nfn ext_holds<'gc>(e: &Ext<'gc>) -> bool {{ {hold.replace('e.c', '(**e)')} }}\n")
        add(f"cell_under_derive/std/{cname}/direct", stmt.replace("ext.c", "(**ext)"), group="cell_under_derive", ext=sx)
    cellish = {
        "lock_swap": "let other = Lock::new(Some(child)); h.slot.swap(&other);",
        "lock_replace": "let _ = h.slot.replace(Some(child));",
        "lock_update": "let _ = h.slot.update(|_| Some(child));",
        "lock_as_ptr_write": "let p = h.slot.as_ptr();",
        "gc_lock_swap_without_mc": "let other = Gc::new(mc, Lock::new(Some(child))); h.gc.swap(&other);",
        "gc_lock_replace_without_mc": "let _ = h.gc.replace(Some(child));",
        "reflock_replace": "let _ = h.rslot.replace(Some(child));",
        "reflock_replace_with": "let _ = h.rslot.replace_with(|_| Some(child));",
        "reflock_swap": "let other = RefLock::new(Some(child)); h.rslot.swap(&other);",
        "reflock_try_borrow_mut": "*h.rslot.try_borrow_mut().unwrap() = Some(child);",
        "oncelock_set": "let _ = h.oslot.set(child);",
        "oncelock_get_or_init": "let _ = h.oslot.get_or_init(|| child);",
        "oncelock_get_or_try_init": "let _ = h.oslot.get_or_try_init(|| Ok::<_, ()>(child));",
    }
    for name, body in cellish.items():
        if name == "lock_as_ptr_write":
            continue
        add(f"cell_style_mutators/{name}", body, group="cell_style_mutators")
    # Static<T> around interior mutability holding a pointer, ROOTED (the holder is black): only sound because Static needs T: 'static
    for cell, newc, stmt, holds in (("Cell", "Cell::new(None)", "ext.0.set(Some(child));", "{ let v = e.0.take(); let r = v.is_some(); e.0.set(v); r }"),
                                    ("RefCell", "RefCell::new(None)", "*ext.0.borrow_mut() = Some(child);", "e.0.borrow().is_some()")):
        sx = (f"type Ext<'gc> = Gc<'gc, gc_arena::Static<{cell}<Option<Gc<'gc, Child>>>>>;\nfn ext<'gc>(mc: &Mutation<'gc>) -> Ext<'gc> {{ Gc::new(mc, gc_arena::Static({newc})) }}\n"
              f"fn ext_holds<'gc>(e: &Ext<'gc>) -> bool {{ {holds} }}\n")
        add(f"static_wrapper/rooted_{cell}", stmt, group="static_wrapper", ext=sx)
        sx2 = sx.replace("Gc::new(mc, gc_arena::Static(", "Gc::new_static(mc, (").replace(f"Gc<'gc, gc_arena::Static<{cell}<Option<Gc<'gc, Child>>>>>", f"Gc<'gc, {cell}<Option<Gc<'gc, Child>>>>")
        add(f"static_wrapper/rooted_new_static_{cell}", stmt.replace("ext.0.", "ext.") if cell == "Cell" else "*ext.borrow_mut() = Some(child);", group="static_wrapper",
            ext=sx2.replace("e.0.", "e."))
    # D4 family seen from C13: a root type that is only well-formed if 'gc: 'static hands the callback the implied bound,
    # under which every `T: 'static` guard of the barrier API is satisfiable for branded data (known finding, same root cause as C12's)
    IMPLIED = '''#![forbid(unsafe_code)]
#![allow(unused)]
use std::cell::RefCell;
use std::marker::PhantomData;
use std::sync::atomic::{AtomicBool, Ordering::SeqCst};
use gc_arena::{Arena, Collect, Gc, RefLock, Rootable, barrier::Write};
static DROPPED: AtomicBool = AtomicBool::new(false);
#[derive(Collect)]
#[collect(require_static)]
struct Payload(u32);
impl Drop for Payload { fn drop(&mut self) { DROPPED.store(true, SeqCst); } }
%s
fn main() {
    let mut arena = Arena::<Rootable![Root<'_>]>::new(|mc| %s);
    arena.finish_marking();
    arena.mutate(|mc, root| { %s });
    arena.finish_cycle();
    if DROPPED.load(SeqCst) { println!("C01 violated: the payload is reachable from the root but was destructed"); std::process::exit(3); }
}
'''
    implied = {
        "from_static": ("type Root<'gc> = (Gc<'gc, RefLock<Option<Gc<'gc, Payload>>>>, PhantomData<&'static Gc<'gc, ()>>);",
                        "(Gc::new(mc, RefLock::new(None)), PhantomData)",
                        "*Write::from_static(root.0.as_ref()).unlock().borrow_mut() = Some(Gc::new(mc, Payload(4)));"),
        "static_ref_refcell": ("type Root<'gc> = (Gc<'gc, &'static RefCell<Option<Gc<'gc, Payload>>>>, PhantomData<&'static Gc<'gc, ()>>);",
                               "(Gc::new(mc, &*Box::leak(Box::new(RefCell::new(None)))), PhantomData)",
                               "*root.0.borrow_mut() = Some(Gc::new(mc, Payload(4)));"),
    }
    for name, (ty, init, body) in implied.items():
        ps.append(Probe(f"implied-static/{name}", IMPLIED % (ty, init, body), "known", group="implied-static", known_key=f"C13/implied-static/{name}"))
    # control: the same programs with an ordinary root are rejected
    ps.append(Probe("implied-static/from_static/ordinary_root_control", IMPLIED % ("type Root<'gc> = (Gc<'gc, RefLock<Option<Gc<'gc, Payload>>>>, PhantomData<&'gc ()>);", implied["from_static"][1], implied["from_static"][2]), "reject", group="implied-static"))
    # user-defined index types on library containers that go through a Gc dereference (index into the container, deref the Gc element)
    via = {
        "vec": ("Vec<Gc<'gc, Lk<'gc>>>", "vecgc", "&*self[0usize]"),
    }
    for cname, (cty, field, body) in via.items():
        items = f"struct Via;\nimpl<'gc> std::ops::Index<Via> for {cty} {{ type Output = Lk<'gc>; fn index(&self, _: Via) -> &Lk<'gc> {{ {body} }} }}\n"
        add(f"user_index_type/{cname}/on_holder", f"(&field!(Gc::write(mc, h), Holder, {field})[Via]).unlock().set(Some(child));", group="user_index_type", items=items)
        add(f"user_index_type/{cname}/on_coowner", f"let w = co_owner(mc, h); (&field!(Gc::write(mc, w), Holder, {field})[Via]).unlock().set(Some(child));", group="user_index_type", items=items)
        add(f"user_index_type/{cname}/from_mut_clone", f"(&Write::from_mut(&mut h.{field}.clone())[Via]).unlock().set(Some(child));", group="user_index_type", items=items)
    for cname, cty, mk in (("arr", "[Gc<'gc, Lk<'gc>>; 1]", "[h.gc]"), ("deque", "VecDeque<Gc<'gc, Lk<'gc>>>", "VecDeque::from(vec![h.gc])"), ("slice", "[Gc<'gc, Lk<'gc>>]", None)):
        items = f"struct Via;\nimpl<'gc> std::ops::Index<Via> for {cty} {{ type Output = Lk<'gc>; fn index(&self, _: Via) -> &Lk<'gc> {{ &*self[0usize] }} }}\n"
        if mk:
            add(f"user_index_type/{cname}/from_mut_local", f"(&Write::from_mut(&mut {mk})[Via]).unlock().set(Some(child));", group="user_index_type", items=items)
        else:
            add(f"user_index_type/{cname}/from_mut_local", "let mut v = vec![h.gc]; (&Write::from_mut(&mut v).as_deref()[Via]).unlock().set(Some(child));", group="user_index_type", items=items)
    for cname, cty, mk in (("btree", "BTreeMap<u8, Gc<'gc, Lk<'gc>>>", "BTreeMap::from([(0u8, h.gc)])"), ("hash", "HashMap<u8, Gc<'gc, Lk<'gc>>>", "HashMap::from([(0u8, h.gc)])")):
        items = f"struct Via;\nimpl<'gc> std::ops::Index<Via> for {cty} {{ type Output = Lk<'gc>; fn index(&self, _: Via) -> &Lk<'gc> {{ &*self[&0u8] }} }}\n"
        add(f"user_index_type/{cname}/from_mut_local", f"(&Write::from_mut(&mut {mk})[Via]).unlock().set(Some(child));", group="user_index_type", items=items)
    # third-party containers (all optional features): user index types that deref a Gc element, by value and by reference
    more = []
    tp = {
        "hashbrown_map": ("hashbrown::HashMap<u8, Gc<'gc, Lk<'gc>>, std::collections::hash_map::RandomState>", "{ let mut m = hashbrown::HashMap::<u8, _, std::collections::hash_map::RandomState>::default(); m.insert(0u8, h.gc); m }", "&*self[&0u8]"),
        "indexmap_map": ("indexmap::IndexMap<u8, Gc<'gc, Lk<'gc>>, std::collections::hash_map::RandomState>", "{ let mut m = indexmap::IndexMap::<u8, _, std::collections::hash_map::RandomState>::default(); m.insert(0u8, h.gc); m }", "&*self[&0u8]"),
        "smallvec": ("smallvec::SmallVec<[Gc<'gc, Lk<'gc>>; 2]>", "smallvec::SmallVec::<[Gc<'_, Lk<'_>>; 2]>::from_vec(vec![h.gc])", "&*self[0usize]"),
    }
    for cname, (cty, mk, body) in tp.items():
        for vname, ity, iex in (("by_value", "Via", "Via"), ("by_ref", "&'a Via", "&Via")):
            gen = "<'a, 'gc>" if vname == "by_ref" else "<'gc>"
            items = f"struct Via;\nimpl{gen} std::ops::Index<{ity}> for {cty} {{ type Output = Lk<'gc>; fn index(&self, _: {ity}) -> &Lk<'gc> {{ {body} }} }}\n"
            pid = f"user_index_type/{cname}/{vname}/from_mut_local"
            more.append(Probe(pid, program(f"let mut m = {mk}; (&Write::from_mut(&mut m)[{iex}]).unlock().set(Some(child));", items), "reject_or_run", group="user_index_type"))
    more.append(Probe("control/third_party_present", program("let mut m = hashbrown::HashMap::<u8, u8, std::collections::hash_map::RandomState>::default(); m.insert(0u8, 1u8); let _ = indexmap::IndexMap::<u8, u8, std::collections::hash_map::RandomState>::default(); let _ = smallvec::SmallVec::<[u8; 2]>::new(); let _ = child;"), "run", group="control"))
    return {
        "more": [{"probes": more, "features": "allf", "externs": ("gc_arena", "hashbrown", "indexmap", "slotmap", "smallvec", "enum_map")}],
        "probes": ps,
        "rule": f"typed term grammar, depth <= {depth} projections: Write source {{Gc::write on the black holder, Gc::write on a white co-owner sharing its Rc/Arc/Gc fields, Write::from_mut of a reference / a clone / a local carrier (Box, Rc, Arc, Vec, array, Option, Result, VecDeque, BTreeMap, HashMap) of a reference, Write::from_static}} x {len(FIELDS)} holder fields (Lock, RefLock, OnceLock directly and behind Box, Rc, Arc, Vec, array, VecDeque, BTreeMap, HashMap, Option, Result, Gc, nested struct, and two-level nestings) x projection chains {{as_deref, as_write, index, range index, key index, field!}} typed under an over-approximate model (DerefWrite / IndexWrite assumed for every pointer and container incl. Gc) x sink by lock kind; plus fixed probes (forged Write, unsafe accessors without unsafe, Cell/RefCell fields under derive incl. require_static + bound combinations, std OnceCell / sync::OnceLock / Mutex / RwLock / Rc<RefCell> / Box<Cell> holding a pointer under derive and as the allocated value, unlock! on every holder field from the holder and from a white co-owner, Static<Cell>, user Unlock / DerefWrite / IndexWrite impls, user index types that deref a Gc element - also on hashbrown / indexmap / smallvec containers with all optional features). Every accepted program is run: holder black in a fully marked arena (first and later cycle), fresh white child; violation = child reachable through the holder but destructed. macro forms that do not exist today (positional field arm, expected types forcing a deref coercion, Unlock on a pointer field) and Cell-style mutator names on Lock / RefLock / OnceLock without a Mutation; client types covered by static_collect! (generic with / without where clause, concrete) instantiated with a pointer. Non-trivial = all but the 10 controls",
        "post": post,
        "level": "exploration",
        "assumptions": ["pinned rustc 1.95 decides acceptance", "exhaustive over the stated grammar, not over all safe programs", "accepted programs are run in one scenario family (holder black / fully marked arena, before and after a first cycle)"],
    }


def post(tier, cm):
    """'Equivalently, every safe program that compiles satisfies C01': the sanctioned adoption paths themselves
    (safe setters of locks allocated directly in a Gc, stash of an upgrade result) explored in every collector state."""
    return cm.explorer_stage("C13", tier, [("S2bcw", "", 120), ("S2dw", "", 240)] if tier == "quick" else [("S2bcw", "", 300), ("S2dw", "", 600), ("S3bc", "", 1800)])
