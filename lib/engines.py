"""Secondary engines: configuration/input grids (C09, C17, C18, C19 run-time half) and generated-program
probes (C12, C13, C15, C16, C19 rejection half). See DESIGN.md section 4."""
import json
import os
import subprocess
import sys
import time

VERIF = os.path.dirname(os.path.dirname(os.path.abspath(__file__)))
BUILD = os.path.join(VERIF, ".build")
BIN = os.path.join(BUILD, "harness", "release")
HARNESS = os.path.join(VERIF, "harness")
ENV = dict(os.environ, CARGO_NET_OFFLINE="true", RUST_BACKTRACE="0")
ENV.pop("RUSTFLAGS", None)


def log(*a):
    print(*a, file=sys.stderr, flush=True)


def check_mod():
    import importlib.machinery, importlib.util
    loader = importlib.machinery.SourceFileLoader("check_main", os.path.join(VERIF, "check"))
    spec = importlib.util.spec_from_loader("check_main", loader)
    m = importlib.util.module_from_spec(spec)
    loader.exec_module(m)
    return m


def known_open(prop):
    p = os.path.join(VERIF, "known_findings.json")
    if not os.path.exists(p):
        return {}
    return {f["key"]: f for f in json.load(open(p)).get("findings", []) if f["property"] == prop and f.get("status") == "open"}


GRID_LEVEL = "exploration"
GRID_ASSUME = {
    "C09": ["harness workloads (linked nodes, weak shells, non-tracing leaves, write barriers on traced objects)", "the documented pacing model: work factors as enumerated; no artificial debt reduction during bound checks"],
    "C17": ["glibc allocator behind the tracking allocator; x86-64 layouts", "payload bytes are Cell<u8> so raw pattern writes are defined"],
    "C18": ["harness payload types; constructor panics injected with resume_unwind"],
    "C19": ["conversion alphabet as listed in the rule; rustc 1.95"],
}


def isolate_grid_crash(prop, tier, sig):
    """Case-by-case rerun after the grid process died: returns a result with the first crashing case as a violation."""
    from concurrent.futures import ThreadPoolExecutor
    exe = os.path.join(BIN, "grid")
    r = subprocess.run([exe, prop.lower(), "--tier", tier, "--out", "/dev/null"], env=dict(ENV, GRID_LIST="1"), stdout=subprocess.PIPE, stderr=subprocess.PIPE, text=True)
    names = [l for l in r.stdout.splitlines() if l.strip()]
    if not names:
        return None

    import tempfile

    def one(name):
        with tempfile.NamedTemporaryFile(suffix=".json", delete=False) as tf:
            outp = tf.name
        q = subprocess.run([exe, prop.lower(), "--tier", tier, "--only", name, "--out", outp], env=ENV, stdout=subprocess.PIPE, stderr=subprocess.PIPE, text=True)
        msg = None
        if q.returncode == 1:
            try:
                vs = json.load(open(outp)).get("violations") or []
                msg = vs[0]["message"] if vs else None
            except Exception:
                msg = None
        try:
            os.remove(outp)
        except OSError:
            pass
        return name, q.returncode, q.stderr.strip()[-300:], msg

    with ThreadPoolExecutor(max_workers=16) as ex:
        results = list(ex.map(one, names))
    crashed = [(n, rc, e) for n, rc, e, _ in results if rc < 0]
    # a case run alone may report an ordinary violation where the whole run died later from its consequences
    plain = [(n, m) for n, rc, _, m in results if rc == 1 and m]
    if not crashed and not plain:
        return None
    viol = [{"case": n, "message": m} for n, m in plain]
    viol += [{"case": n, "message": f"the process was killed by signal {-rc} while running this case alone (an abort raised by a safety check of the standard library or the allocator, or a wild memory access): {e}"} for n, rc, e in crashed]
    log(f"[{prop.lower()}] the grid process died by signal {sig}; case-by-case: {len(plain)} case(s) report a violation, {len(crashed)} crash alone, out of {len(names)}; first: {viol[0]['case']}")
    return {"grid": prop.lower(), "evaluations": len(names), "distinct_nontrivial": len(names), "rule": "case-by-case rerun after a crash of the grid process", "samples": names[:3],
            "violations": viol, "violation_count": len(viol), "extra": {"exhaustive": False, "crash_isolated": True}}


def run_grid(prop, tier, extra_parts=None):
    """Runs the grid binary for prop; returns (rc, evidence parts)."""
    cm = check_mod()
    cm.build()
    t0 = time.time()
    out = os.path.join(BUILD, f"grid-{prop}.json")
    if os.path.exists(out):
        os.remove(out)
    r = subprocess.run([os.path.join(BIN, "grid"), prop.lower(), "--tier", tier, "--out", out], env=ENV, stdout=subprocess.PIPE, stderr=subprocess.PIPE, text=True)
    log(r.stderr.strip()[-1500:])
    if not os.path.exists(out) and r.returncode < 0:
        # the process was killed by a signal (abort of a standard-library / allocator safety check, wild access):
        # find the case by running every case in a process of its own
        res = isolate_grid_crash(prop, tier, -r.returncode)
        if res is None:
            log(f"MACHINERY: grid engine died (signal {-r.returncode}) and no single case reproduces it: {r.stderr.strip()[-600:]}")
            return 2, None
        res["wall"] = time.time() - t0
        return 1, res
    if not os.path.exists(out):
        log(f"MACHINERY: grid engine died (exit {r.returncode}): {r.stderr.strip()[-600:]}")
        return 2, None
    res = json.load(open(out))
    res["wall"] = time.time() - t0
    return (1 if res["violation_count"] else 0), res


def finish_grid(prop, tier, res, rc, more_cov=None, more_known=None, wall=None):
    cm = check_mod()
    known = known_open(prop)
    klines = []
    unknown_known = []
    for key, n in (res.get("extra", {}).get("known_findings") or {}).items():
        if n:
            if key in known:
                klines.append(f"KNOWN-FINDING: property={prop} {key}: {known[key]['what']} ({n} occurrence(s) in this run)")
            else:
                unknown_known.append(key)
    for key in (more_known or []):
        if key in known:
            klines.append(f"KNOWN-FINDING: property={prop} {key}: {known[key]['what']}")
        else:
            unknown_known.append(key)
    cov = {
        "evaluations": res["evaluations"],
        "distinct_nontrivial": res["distinct_nontrivial"],
        "rule": res["rule"],
        "samples": res["samples"],
        "exhaustive": bool(res.get("extra", {}).get("exhaustive", False)) and rc == 0,
        "details": res.get("extra", {}),
    }
    if more_cov:
        cov.update(more_cov)
    nviol = res["violation_count"] + len(unknown_known)
    cm.write_evidence(prop, tier, GRID_LEVEL, cov, wall if wall is not None else res.get("wall", 0.0), nviol, GRID_ASSUME.get(prop, []))
    for l in klines:
        print(l)
    if res["violation_count"]:
        v = res["violations"][0]
        path = cm.write_replay(prop, "grid", {"grid": prop.lower(), "case": v["case"], "message": v["message"], "tier": tier})
        log(f"violated: case {v['case']}: {v['message']}")
        print(f"VIOLATION property={prop} replay={path}")
        return 1
    if unknown_known:
        path = cm.write_replay(prop, "grid", {"grid": prop.lower(), "case": unknown_known[0], "message": "finding class not listed in known_findings.json", "tier": tier})
        print(f"VIOLATION property={prop} replay={path}")
        return 1
    return 0


def run(prop, tier):
    if prop in ("C09", "C17", "C18"):
        rc, res = run_grid(prop, tier)
        if res is None:
            return 2
        return finish_grid(prop, tier, res, rc)
    if prop in ("C12", "C13", "C15", "C16", "C19"):
        import probes
        return probes.run(prop, tier)
    log(f"unknown property {prop}")
    return 2


def replay(body, path):
    cm = check_mod()
    if body.get("engine") == "grid":
        cm.build()
        r = subprocess.run([os.path.join(BIN, "grid"), body["grid"], "--tier", body.get("tier", "quick"), "--only", body["case"], "--out", "/dev/stdout"], env=ENV)
        return r.returncode
    import probes
    return probes.replay(body, path)
