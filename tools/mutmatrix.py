#!/usr/bin/env python3
"""Development helper: run each seeded change against its own property's quick check in the scratch copy
(/tmp/mrepo + /tmp/mverif, see tools/mutrun.sh) and record the verdicts in /tmp/matrix.json."""
import json, os, re, subprocess, sys, time, glob
S = os.environ.get('SCR', 'm')
OUT = '/tmp/matrix.json' if S == 'm' else f'/tmp/matrix-{S}.json'
res = {}
only = sys.argv[1:]
for d in sorted(glob.glob('/verif/seeded/*')):
    sid = os.path.basename(d)
    if only and not any(sid == o or (o.endswith('*') and sid.startswith(o[:-1])) for o in only): continue
    prop = json.load(open(d + '/meta.json'))['breaks_property']
    t0 = time.time()
    r = subprocess.run(['/verif/tools/mutrun.sh', 'run', d + '/patch.diff', prop], capture_output=True, text=True)
    err = open(f'/tmp/{S}utrun.err').read() if os.path.exists(f'/tmp/{S}utrun.err') else ''
    m = re.search(r'rc=(\d+)', r.stdout)
    rc = int(m.group(1)) if m else -1
    what = ''
    for l in err.splitlines():
        if l.startswith('violated'):
            what = l[:400]; break
    res[sid] = {'property': prop, 'rc': rc, 'secs': round(time.time() - t0), 'what': what}
    print(sid, prop, rc, round(time.time() - t0), what[:150], flush=True)
    json.dump(res, open(OUT, 'w'), indent=1)
