#!/usr/bin/env python3
"""Re-confirm a filed seeded change against /repo's CURRENT HEAD (in the scratch clone /tmp/<S>repo, never /repo):
the patch applies, the repository suite passes with it, the demonstration fails with it and passes without it.
usage: reconfirm.py <seeded-id> [patch override]"""
import json, os, re, subprocess, sys
sid = sys.argv[1]
S = os.environ.get("SCR", "m"); R = f"/tmp/{S}repo"
d = f"/verif/seeded/{sid}"
patch = sys.argv[2] if len(sys.argv) > 2 else f"{d}/patch.diff"
meta = json.load(open(f"{d}/meta.json"))
cf = "rejected by the compiler" in meta["confirmed"].get("demo_without_change", "")
feat = meta.get("demo_features", "")
ff = f"--features {feat} " if feat else ""
env = dict(os.environ, CARGO_NET_OFFLINE="true", RUST_BACKTRACE="0")
def sh(c): return subprocess.run(c, shell=True, cwd=R, env=env, capture_output=True, text=True)
sh("git reset -q --hard; rm -f tests/demo_x.rs")
r = sh(f"git apply {patch}")
if r.returncode: print(sid, "PATCH FAILS", r.stderr[:200]); sys.exit(1)
suite = sh("cargo test --workspace --no-fail-fast --offline 2>&1")
res = re.findall(r"test result: (\w+)\. (\d+) passed; (\d+) failed", suite.stdout)
suite_ok = bool(res) and all(x[0] == "ok" for x in res) and any(int(x[1]) == 39 for x in res)
sh(f"cp {d}/demo.rs tests/demo_x.rs")
w = sh(f"cargo test --offline {ff}--test demo_x 2>&1")
fails_with = w.returncode != 0 and "error: could not compile" not in w.stdout
sh("git reset -q --hard")
wo = sh(f"cargo test --offline {ff}--test demo_x 2>&1")
passes_without = ("error: could not compile" in wo.stdout and "error[E" in wo.stdout) if cf else wo.returncode == 0
sh("rm -f tests/demo_x.rs")
ok = suite_ok and fails_with and passes_without
print(f"{sid}: suite_ok={suite_ok} demo_fails_with={fails_with} demo_passes_without={passes_without} -> {'CONFIRMED' if ok else 'REJECTED'}")
if not ok:
    print((suite.stdout[-600:] if not suite_ok else "") + (w.stdout[-600:] if not fails_with else "") + (wo.stdout[-600:] if not passes_without else ""))
sys.exit(0 if ok else 1)
