#!/usr/bin/env python3
"""Fills seeded/*/meta.json (what the change is, what it needs to manifest, which check detects it) from a verdict
file produced by tools/mutmatrix.py or tools/final_matrix.sh, and prints the markdown table used in DESIGN.md section 9."""
import glob, json, os, sys

DESC = {
 "C01-m1": ("`backward_barrier` ignores a weakly-marked (`WhiteWeak`) child", "Marked/Marking, black parent, child reached only through a traced weak pointer, adopted through the child-naming barrier (`stash` of an upgrade result)"),
 "C01-m2": ("`upgrade` no longer refuses condemned (`WhiteWeak`) values while Sweeping", "stop inside the sweep before the cursor reaches the value, upgrade, store in a rooted object, continue the sweep"),
 "C01-m3": ("`root_needs_trace` cleared before the root is traced", "a panic escaping the root's own `trace` after a prefix of its fields, caught; next collector call"),
 "C02-m1": ("`forward_barrier` active in every phase but Sleep", "forward barrier on a white object while Sweeping, object then unreachable, two full cycles"),
 "C02-m2": ("`sweep_prev` not advanced over a `WhiteWeak` object", "a dying weakly-held object directly followed in list order by garbage freed in the same sweep"),
 "C02-m3": ("a dead shell's colour is not reset to white", "a shell that lives through a second sweep while a weak pointer still refers to it, then the weak pointer is dropped"),
 "C03-m1": ("a refused `upgrade` during sweep destructs the value on the spot", "Sweeping, only-weakly-reachable object ahead of the cursor, `upgrade` inside a callback"),
 "C03-m2": ("allocation \"assists\" the sweep (destructs the object under the cursor)", "Sweeping, positive debt, garbage at the cursor, `Gc::new` inside a callback"),
 "C03-m3": ("`root_barrier` finishes the sweep", "`mutate_root` / `map_root` / `try_map_root` while Sweeping with unswept garbage"),
 "C04-m1": ("`is_live` guard removed from the `WhiteWeak` sweep arm", "a value with a destructor dies while weakly held, one more full cycle with the weak pointer still reachable"),
 "C04-m2": ("`sweep_prev` not advanced over a `WhiteWeak` object", "see C02-m2; the shell is cut out of the list and never released, also not by arena drop"),
 "C04-m3": ("arena teardown does not resume after a panicking destructor", "a destructor that panics while the arena is dropped, older values still allocated"),
 "C05-m1": ("`backward_barrier` ignores a `WhiteWeak` child", "see C01-m1 (upgrade, then `stash`)"),
 "C05-m2": ("`trace_weak` skips already-destructed targets", "target dies in cycle N, weak pointer stays reachable, a complete cycle N+1, then a query: the header was freed"),
 "C05-m3": ("`upgrade` refuses plain-white objects too while Sweeping", "Sweeping: a reachable target behind the cursor, or a value allocated during the sweep"),
 "C05-xm4": ("`set_live(false)` after instead of before `drop_in_place`", "a destructor that panics during the sweep of a weakly-held object"),
 "C06-m1": ("`backward_barrier` ignores a `WhiteWeak` child", "see C01-m1"),
 "C06-m2": ("child-only forward barriers (`parent = None`) do nothing", "`forward_barrier(None, c)` / `forward_barrier_weak(None, w)` while marking, then adoption by a black parent"),
 "C06-m3": ("`stash` passes the barrier arguments swapped", "stashing an unmarked object while the set is already black (Marked)"),
 "C07-m1": ("`gray_remaining()` forgets the `gray_again` queue", "backward barrier on a black parent while Marked, then `mark_debt()` with zero debt hands out a `MarkedArena` in which the adopted child is dead"),
 "C07-m2": ("`backward_barrier` ignores a `WhiteWeak` child", "see C01-m1, observed as `is_dead` of a reachable object in the next finalize"),
 "C07-m3": ("`resurrect` implemented through `trace()`", "resurrecting a dead object of a non-tracing type: blackened directly, the arena stays Marked"),
 "C08-m1": ("`cycle_debt` runs on into a new cycle when debt is left", "`cycle_debt` from Marking/Sweeping with more debt than the rest of the cycle plus the next wake-up amount"),
 "C08-m2": ("`mark_debt` decides Some/None from why it stopped", "`mark_debt` on an arena that is already Marked, or debt reaching zero on the step that ends marking"),
 "C08-m3": ("`gray_remaining()` forgets the `gray_again` queue", "phase query / `mark_debt` after a backward barrier in Marked"),
 "C09-m1": ("`make_gray_again` no longer un-counts trace work", "debt-driven stepping while the mutator takes write barriers on traced objects (>= 2.5 per allocation)"),
 "C09-m2": ("`finish_cycle` carries over unclamped (negative) debt", "a cycle finished mid-way by `finish_cycle()`, then the following sleep"),
 "C09-m3": ("`collect_debt` stops at the first cycle boundary", "`collect_debt` mid-cycle with more debt than the rest of the cycle and the next sleep can absorb"),
 "C10-m1": ("a dead shell is freed without decrementing the count", "weak-only object survives a cycle as a shell, last weak pointer dropped, second sweep"),
 "C10-m2": ("`backward_barrier_weak` re-queues non-tracing parents again", "Mark phase, black parent of a non-tracing type, plain white weak child, `traced_gcs == 0`"),
 "C10-m3": ("`adjust_debt` clamps the artificial debt at zero", "positive debt from allocation, a negative adjustment larger than the artificial part"),
 "C11-m1": ("`root_needs_trace` cleared before the root is traced", "see C01-m3"),
 "C11-m2": ("`mutate_root` applies the root barrier after the callback", "callback stores a fresh pointer in the root and panics, while Marked"),
 "C11-m3": ("slice builder `Drop` skips everything when `init_length == 0`", "constructor panic at index 0 (or drop right after `write_header`) with a header that has drop glue"),
 "C12-m1": ("`Invariant<'a>` becomes contravariant (`PhantomData<fn(&'a ())>`)", "growing-direction coercion of `&Mutation<'gc>` to `&Mutation<'static>`"),
 "C12-m2": ("`MarkedArena::finalize` loses its higher-ranked `'gc`", "returning a `Gc` from the finalize callback; sharing one lifetime between two marked arenas"),
 "C12-m3": ("`unsafe impl Send for Arena<R> where Root<'static, R>: Send`", "an arena whose root type is itself `Send`"),
 "C13-m1": ("`IndexWrite<I> for Vec<T>` loses its `[T]: IndexWrite<I>` bound", "a user index type whose `Index` impl for `Vec<Gc<..>>` dereferences a `Gc` element"),
 "C13-m2": ("derive: field-level `require_static` loses its `'static` bound when `bound = \"…\"` is given", "`RefCell<Option<Gc>>` field with `#[collect(require_static)]` under `bound = \"\"`"),
 "C13-m3": ("`Gc<OnceLock>::set` emits its barrier only when the set fails", "black `OnceLock` object while marking, white child otherwise unreachable"),
 "C14-m1": ("`stash` barrier only when the slot table grows", "slot freed earlier, set black while marking, white object stashed into the reused slot"),
 "C14-m2": ("`contains` accepts handles whose issuing set is gone", "handle outlives its arena and is presented to a live set"),
 "C14-m3": ("`backward_barrier` ignores a `WhiteWeak` child", "see C01-m1"),
 "C15-m1": ("`require_static` filter keyed by binding name", "enum: `require_static` field at position i of one variant, a pointer at position i of another"),
 "C15-m2": ("off-by-one in the several-lifetimes check", "exactly two lifetime parameters without `gc_lifetime`"),
 "C15-m3": ("`bound = \"…\"` replaces `Self: 'static` in type-level `require_static`", "`#[collect(require_static, bound = \"where T: Clone\")] struct O<T>(T)` with `T = Gc`"),
 "C16-m1": ("`VecDeque` traces only the first slice of the ring buffer", "a physically wrapped deque"),
 "C16-m2": ("`Result<T,E>::NEEDS_TRACE` ignores `E`", "`Result<u8, Gc>` in the `Err` state"),
 "C16-m3": ("`HashMap` bound `S: 'static` weakened to `S: BuildHasher`", "a user hasher that holds a `Gc`"),
 "C17-m1": ("zero-sized-header shortcut in `SliceWithHeader::layout`", "zero-sized header over-aligned beyond element alignment and 8"),
 "C17-m2": ("hand-rolled rounding in `prefix_header_layout`", "24-byte prefix (slice / str / header+slice) with value alignment exactly 16"),
 "C17-m3": ("per-value metadata written to a different slot than it is read from", "metadata type that leaves padding before the header (`u8`, `u16`, `u32`, over-aligned)"),
 "C18-m1": ("`write_slice_with` skips zero-sized elements", "zero-sized element type"),
 "C18-m2": ("`copy_slice` registers the allocation before checking the length", "wrong-length source, caught panic"),
 "C18-m3": ("slice-stage builder `Drop` gated on `needs_drop::<E>()`", "header with a destructor, elements without, abandonment after the header"),
 "C19-m1": ("`backward_barrier` ignores a `WhiteWeak` child", "downgrade -> upgrade -> stash -> fetch while marking"),
 "C19-m2": ("`ZstCache` alignment bound weakened to `max(MAX_ALIGN, align_of::<GcHeader>())`", "cache alignment 1/2/4 with a ZST of alignment in (MAX_ALIGN, 8]"),
 "C19-m3": ("`GcSliceWithHeaderBuilder::assume_init` loses `unsafe`", "only a program that calls it without `unsafe` sees it"),
 "C20-m1": ("`contains` compares slot contents instead of set identity", "arena dropped with a live handle, another arena allocates at the recycled address and stashes at the same slot index"),
 "C20-m2": ("a thread-local \"teardown\" flag makes `DynamicRoot::drop` skip releasing its slot", "a handle of arena B owned by a value in the heap of arena A; A is dropped"),
 "C02b-m1": ("sweep cursor not initialised on the `start_sweeping()` path", "`start_sweeping()`, then an object marked and unlinked in the same mark phase"),
 "C02b-m2": ("a released weak-pointer shell is unlinked but never freed or uncounted", "value dies while weakly held, weak pointer dropped, a full cycle"),
 "C02b-m3": ("a recycled `DynamicRootSet` slot starts with `ref_count: 1`", "stash, drop all handles, stash into the reused slot, drop all handles"),
 "C05b-m1": ("`DynCollect`'s `TraceWrap` forwards weak pointers as strong", "a `GcWeak` behind a `dyn` trait object traced through `dyn_collect!`"),
 "C05b-m2": ("`forward_barrier_weak` active in every phase but Sleep", "weak forward barrier while Sweeping, then `upgrade` of the (reachable) target in the same sweep"),
 "C05b-m3": ("`trace` does not queue an object that is already `WhiteWeak`", "weak edge traced before the strong edge in the same cycle, traceable target (3 objects)"),
 "C07b-m1": ("`resurrect` only revives weakly-marked objects", "resurrecting a plain-white dead object: the strong child of a dead weak target"),
 "C07b-m2": ("`forward_barrier` active in every phase but Sleep", "forward barrier while Sweeping, stale mark in the next cycle's `MarkedArena`"),
 "C07b-m3": ("`try_map_root` lost its root barrier", "`try_map_root` while Marked with a new root holding a white pointer"),
 "C08b-m1": ("`root_needs_trace` cleared before the root is traced (`mem::take`)", "a caught panic from the root's own `trace`"),
 "C08b-m2": ("\"hold at sweep\" guard also requires a non-empty cursor", "Sweeping with the cursor past the end; `finish_marking` / `mark_debt` / `start_sweeping`"),
 "C08b-m3": ("`start_sweeping` made debt-driven", "`start_sweeping` with zero allocation debt"),
 "C09b-m1": ("weak shells whose value dies this cycle are not counted as survivors", "many weak targets dying in the cycle before the measured sleep"),
 "C09b-m2": ("marking credited twice for weak-then-strong tracing", "a weak index traced before the owning container, debt-driven stepping"),
 "C09b-m3": ("carried debt computed against the *new* sleep allowance", "heap shrank or grew between non-atomic cycles"),
 "C10b-m1": ("marking credited twice for weak-then-strong tracing", "forward barrier on a child obtained via `upgrade` (already weakly marked)"),
 "C10b-m2": ("credit formula rewritten as `(dropped - freed) * drop + …`", "a dead shell freed in a later cycle than the one that dropped its value"),
 "C10b-m3": ("`total_gcs == 0 => 0.0` early-out removed from `allocation_debt`", "artificial or carried debt on an arena without allocations"),
 "C14b-m1": ("`Slots::add` returns the last index on slot reuse", "stash A, B; drop A; stash D; drop D"),
 "C14b-m2": ("`contains` checks the slot table instead of set identity", "two sets in one arena holding the same object at the same slot index"),
 "C14b-m3": ("`DynamicRoot::drop` returns early while the thread is panicking", "a handle dropped during a caught unwind"),
 "C17b-m1": ("`META_HEADER_LAYOUT` without `pad_to_align()`", "per-value metadata with alignment >= 32"),
 "C17b-m2": ("block size padded on request but not on release", "a value whose offset + size is not a multiple of the block alignment (`Gc<u8>`)"),
 "C18b-m1": ("`copy_slice` length check by byte size", "zero-sized `Copy` elements with a source of the wrong length"),
 "C18b-m2": ("slice builder `Drop` returns early for plain-data slices (skipping the free)", "abandoned `GcStrBuilder` / plain-data slice builder past the header stage"),
 "C18b-m3": ("plain `GcSliceBuilder::write_slice_with` no longer updates `init_length`", "constructor panic after k >= 1 elements with a destructor"),
 "C20b-m1": ("`GcWeak::upgrade` accepts a `Mutation` of any brand", "nested `mutate` on two arenas: upgrade arena A's weak pointer with arena B's context"),
 "C20b-m2": ("`unsize!` impl for `Gc` gets a free output lifetime", "nested callbacks: re-brand a pointer through `unsize!` and store it in the other arena"),
 "C20b-m3": ("root-set identity = address of the set's own allocation", "arena dropped, a new set in another arena lands on the same address, stale handle presented"),
 "C01c-m1": ("`stash` uses `forward_barrier(Some(root), set)` instead of the backward barrier", "set black while marking, fresh white value stashed"),
 "C01c-m2": ("`VecDeque` traces only its first slice", "a wrapped deque reachable from the root (container impl: decided by C16)"),
 "C01c-m3": ("`root_barrier` skipped while gray objects are queued", "marking stopped after the root was traced with a non-empty queue, then `mutate_root` stores a fresh object"),
 "C03c-m1": ("`finalize` calls `collect_debt()` after the callback", "callback leaves gray work (resurrect / barrier), arena still in debt, another dead value exists"),
 "C03c-m2": ("backward barrier frees the parent's dead list successor while Sweeping", "Sweeping, barrier on a still-black object ahead of the cursor whose list successor is white garbage"),
 "C04c-m1": ("objects allocated during a sweep live on a side list that teardown forgets", "enter Sweeping, allocate, drop the arena before the sweep finishes"),
 "C04c-m2": ("a failing `try_new` leaks the whole context (`Box::into_raw`)", "`Arena::try_new` whose constructor allocates and returns `Err`"),
 "C04c-m3": ("`Copy` bound of `copy_slice` moved from the element to the header type", "`copy_slice` of elements with destructors: destructed twice"),
 "C06c-m1": ("`root_barrier` only when nothing is gray", "see C01c-m3"),
 "C06c-m2": ("traceable objects allocated while marking are created black", "a fresh object that holds a pointer from construction, adopted by a black parent"),
 "C06c-m3": ("`gray_remaining()` ignores `gray_again`", "backward barrier while Marked, then zero-debt `mark_debt`"),
 "C11c-m1": ("the trace-panic guard truncates the gray queue to its length before the trace", "a `trace` that panics after tracing a white child that itself needs tracing"),
 "C11c-m2": ("`map_root` / `try_map_root` hold the context as a raw pointer across the callback", "a panic inside the `map_root` callback: the whole heap leaks"),
 "C12c-m1": ("`contains` accepts handles whose own set is gone (`is_none_or`)", "a handle that outlived its set, presented to another set"),
 "C12c-m2": ("derive: field-level `require_static` predicates only without `bound = …`", "`Cell<Option<&'gc T>>` in an untraced root field"),
 "C12c-m3": ("`HashMap` / `HashSet` bound `S: 'static` weakened", "a hasher borrowing from a GC object inside a rooted map"),
 "C13c-m1": ("`Rc<T>: DerefWrite` loses `T: 'static` again", "a white co-owner of an `Rc<RefLock<..>>` shared with a black object"),
 "C13c-m2": ("`field!` expands its argument inside the macro's own `unsafe` block", "`field!(Write::assume(x), T, f)` in a crate that forbids unsafe code"),
 "C13c-m3": ("`backward_barrier` ignores a `WhiteWeak` child", "upgrade then `stash` while marking"),
 "C15c-m1": ("stale indices when removing `require_static` bindings", "two or more `require_static` fields followed by a pointer field"),
 "C15c-m2": ("duplicate-mode check only rejects the *same* mode twice", "`#[collect(no_drop, unsafe_drop)]`"),
 "C15c-m3": ("empty variants pruned before the variant-attribute check", "`#[collect(require_static)]` on a unit variant"),
 "C16c-m1": ("`BTreeMap` traces keys or values, never both", "`BTreeMap<Gc, Gc>`"),
 "C16c-m2": ("new `Collect` impls for `rc::Weak<T>` / `sync::Weak<T>` with `NEEDS_TRACE = false`", "`rc::Weak<Gc<..>>` in the root"),
 "C16c-m3": ("`RefLock::trace` silently skips a mutably borrowed lock", "a leaked `RefMut` at trace time"),
 "C19c-m1": ("inner `copy_slice` loses its `E: Copy` bound", "bitwise duplication of non-`Copy` elements from safe code"),
 "C19c-m2": ("`ptr_eq` compares wide-pointer metadata too", "two cached zero-sized values unsized to the same trait-object type"),
 "C19c-m3": ("`stash` passes the barrier arguments swapped", "upgrade -> stash while marking"),
}

verdicts = json.load(open(sys.argv[1])) if len(sys.argv) > 1 and os.path.exists(sys.argv[1]) else {}
against = sys.argv[2] if len(sys.argv) > 2 else "scratch copy of /repo (tools/mutrun.sh)"
rows = []
for d in sorted(glob.glob(os.path.join(os.path.dirname(os.path.dirname(os.path.abspath(__file__))), "seeded", "*"))):
    sid = os.path.basename(d)
    mp = os.path.join(d, "meta.json")
    meta = json.load(open(mp))
    what, needs = DESC.get(sid, (meta.get("what", ""), meta.get("needs_to_manifest", "")))
    meta["what"] = what
    meta["needs_to_manifest"] = needs
    v = verdicts.get(sid)
    if v:
        meta["detected_by"] = {
            "check": f"./check {v['property']} --tier quick",
            "run_against": against,
            "exit_code": v["rc"],
            "detected": v["rc"] == 1,
            "reported": v.get("what", ""),
        }
    json.dump(meta, open(mp, "w"), indent=1)
    db = meta.get("detected_by") or {}
    det = "—"
    if db:
        det = ("**yes**: " + db.get("reported", "").replace("violated oracle ", "").replace("violated: ", "")[:110]) if db.get("detected") else "no (section 8)"
    rows.append(f"| {sid} | {what} | {needs} | {det} |")
print("| id | change | needs | caught by its property's quick check |\n|---|---|---|---|")
print("\n".join(rows))
