#!/bin/bash
# Development helper: run checks against seeded changes in a scratch copy (never /repo itself).
#   tools/mutrun.sh setup            refresh /tmp/mrepo (clone of /repo HEAD) and /tmp/mverif (copy of /verif)
#   tools/mutrun.sh sync             refresh /tmp/mverif only
#   tools/mutrun.sh run <diff> <prop>...
set -u
case "$1" in
 setup)
  rm -rf /tmp/mrepo; git clone -q /repo /tmp/mrepo; cp /repo/Cargo.lock /tmp/mrepo/ ;&
 sync)
  mkdir -p /tmp/mverif
  rsync -a --delete --exclude .build --exclude .git --exclude replays --exclude evidence /verif/ /tmp/mverif/
  find /tmp/mverif -name Cargo.toml -o -name config.toml | xargs sed -i 's#"/repo"#"/tmp/mrepo"#; s#/verif/.build#/tmp/mverif/.build#'
  grep -rl '/repo' /tmp/mverif/lib 2>/dev/null | xargs -r sed -i 's#"/repo#"/tmp/mrepo#g'
  ;;
 run)
  shift; patch=$1; shift
  cd /tmp/mrepo && git checkout -q -- . && git apply "$patch" || { echo "patch does not apply: $patch"; exit 2; }
  cd /tmp/mverif
  for p in "$@"; do
    t0=$(date +%s)
    out=$(VERIF_TIER=${TIER:-quick} ./check "$p" 2>/tmp/mutrun.err); rc=$?
    t1=$(date +%s)
    echo "  $p rc=$rc $((t1-t0))s $(echo "$out" | grep -E 'VIOLATION|KNOWN' | head -2)"
    if [ $rc -ne 0 ]; then grep -E "violated oracle|MACHINERY|history" /tmp/mutrun.err | head -3 | cut -c1-400 | sed 's/^/      /'; fi
  done
  cd /tmp/mrepo && git checkout -q -- .
  ;;
esac
