#!/bin/bash
# Development helper: run checks against seeded changes in a scratch copy (never /repo itself).
#   tools/mutrun.sh setup            refresh /tmp/<S>repo (clone of /repo HEAD) and /tmp/<S>verif (copy of /verif)
#   tools/mutrun.sh sync             refresh /tmp/<S>verif only
#   tools/mutrun.sh run <diff> <prop>...
# <S> = $SCR (default m): several scratch areas can be used side by side.
set -u
S=${SCR:-m}
R=/tmp/${S}repo
V=/tmp/${S}verif
case "$1" in
 setup)
  rm -rf $R; git clone -q /repo $R; cp /repo/Cargo.lock $R/ ;&
 sync)
  mkdir -p $V
  rsync -a --delete --exclude .build --exclude .git --exclude replays --exclude evidence /verif/ $V/
  find $V -name Cargo.toml -o -name config.toml | xargs sed -i "s#\"/repo\"#\"$R\"#; s#/verif/.build#$V/.build#"
  ;;
 run)
  shift; patch=$1; shift
  cd $R && git checkout -q -- . && git apply "$patch" || { echo "patch does not apply: $patch"; exit 2; }
  cd $V
  for p in "$@"; do
    t0=$(date +%s)
    out=$(VERIF_TIER=${TIER:-quick} ./check "$p" 2>/tmp/${S}utrun.err); rc=$?
    t1=$(date +%s)
    echo "  $p rc=$rc $((t1-t0))s $(echo "$out" | grep -E 'VIOLATION|KNOWN' | head -2)"
    if [ $rc -ne 0 ]; then grep -E "violated oracle|MACHINERY|history" /tmp/${S}utrun.err | head -3 | cut -c1-400 | sed 's/^/      /'; fi
  done
  cd $R && git checkout -q -- .
  ;;
esac
