#!/bin/bash
# usage: mutcheck.sh <patch.diff> <prop> [<prop>...]   (applies the patch to /repo, runs the quick checks, reverts)
set -u
patch=$1; shift
cd /repo || exit 2
if ! git diff --quiet; then echo "/repo working tree not clean"; exit 2; fi
git apply "$patch" || { echo "patch does not apply"; exit 2; }
trap 'git -C /repo checkout -- . ' EXIT
cd /verif
for p in "$@"; do
  t0=$(date +%s)
  out=$(VERIF_TIER=${TIER:-quick} ./check "$p" 2>/tmp/mutcheck.err); rc=$?
  t1=$(date +%s)
  echo "  $p rc=$rc $((t1-t0))s $(echo "$out" | grep -E 'VIOLATION|KNOWN' | head -2)"
  if [ $rc -ne 0 ]; then grep -E "violated oracle|MACHINERY|history" /tmp/mutcheck.err | head -3 | sed 's/^/      /'; fi
done
