#!/bin/bash
# runs every registered check of one tier, one after the other; prints exit code and wall time per property
tier=${1:-quick}
cd "$(dirname "$0")/.."
for p in C01 C02 C03 C04 C05 C06 C07 C08 C09 C10 C11 C12 C13 C14 C15 C16 C17 C18 C19 C20; do
  s=$(date +%s)
  out=$(./check $p --tier $tier 2>log-$tier-$p.txt); rc=$?
  e=$(date +%s)
  echo "$p tier=$tier rc=$rc $((e-s))s known=$(echo "$out" | grep -c KNOWN-FINDING) $(echo "$out" | grep VIOLATION)"
done
