#!/usr/bin/env python3
"""Generates /verif/MANIFEST.json from the table below (single source of truth for the interface)."""
import json, os, subprocess

VERIF = os.path.dirname(os.path.dirname(os.path.abspath(__file__)))

EXPLORER_NOTE = ("Trusted base: the harness (shadow model, drop log, tracking allocator with quarantine, lock-step traversal), "
                 "the read-only cfg(gc_arena_verif) snapshot hooks (state hashing and coverage accounting only, never a verdict), rustc 1.95. "
                 "Bounded: <= N simultaneously allocated objects per scope (2-4), harness payload types, 1-2 root slots, 1-2 strong slots; "
                 "within a scope the search runs to a fixpoint (all depths) unless the evidence names a cap.")

PROBE_NOTE = "Trusted base: rustc 1.95 decides acceptance of every generated program; the generator's own tables (which pointers were placed where / which step is the offending one); positive twins prove each rejection is caused by the step under test. Exhaustive over the stated grammar only - the universally quantified reading over all safe programs is NOT established."

CHECKS = {
    "C01": dict(engine="explorer", cat="model_checking", ref="5/C01",
                text="Every reachable state and transition of the bounded scopes (full 2-object alphabet, 3-object chains, trace-fault scope, dynamic-root scope with weak upgrades) is executed on the real Arena; after every operation the drop log and the allocator log are compared with shadow reachability and the real graph is traversed in lock-step with the shadow. The harness root has a destructor that asks the tracking allocator whether everything it points to is still allocated (every execution ends with drop(Arena)); a grid re-types the root through map_root / try_map_root (non-tracing <-> pointer-holding root types) around every operation sequence up to length 4 (thorough 5).",
                tech="explicit-state BFS over the real Arena by re-execution, closed scopes, shadow-model oracle"),
    "C02": dict(engine="explorer", cat="model_checking", ref="5/C02",
                text="In every distinct state of the scopes a probe makes one more unreachable object (if the scope has room), runs finish_cycle twice and compares survivors and Gc count with the shadow (exactly the reachable set plus weakly referenced shells), then clears the weak references and requires the shells to be released by one more cycle.",
                tech="explicit-state BFS + per-state probe (2x finish_cycle) against shadow reachability"),
    "C03": dict(engine="explorer", cat="model_checking", ref="5/C03",
                text="Every callback of every transition is bracketed (no destructor run, no Gc block released between entry and exit) and in every state a probe enters each callback kind under 1e9 artificial debt, allocates temporaries, upgrades all weak pointers and re-reads them at exit. Callbacks that mutate and then unwind are bracketed too, and the probe nests rootless_mutate in the callback and in itself (the end of the inner call destructs exactly the inner call's allocations). The builder grid of C18 runs as a further stage (every builder kind incl. the Static-unwrapping conversions completes and abandons allocations inside a callback: nothing released while it runs).",
                tech="explicit-state BFS + per-state probe (callbacks under huge debt), drop/dealloc log bracketing"),
    "C04": dict(engine="explorer", cat="model_checking", ref="5/C04",
                text="In every distinct state (asleep, mid-mark, marked, mid-sweep at every cursor position, shells present) a probe drops the arena: every id destructed exactly once, every Gc block released once with its allocation layout, no arena allocation outstanding, retained Metrics reads 0. Double destruction / double free / layout mismatch are also checked on every transition. The layout grid of C17 and the builder grid of C18 run as further stages (release layout for every value layout; destructor counts of slice / header allocations).",
                tech="explicit-state BFS + per-state probe (drop arena), tracking allocator"),
    "C05": dict(engine="explorer", cat="model_checking", ref="5/C05",
                text="In every state every reachable weak pointer is queried (block still allocated, is_dropped == drop log, upgrade Some => undestructed, reachable => Some, None => destructed or Sweeping); formatting a weak pointer ({:?}) is a query as well (the node's Debug impl asks the tracking allocator before it reads); upgrade-and-store / upgrade-and-stash are transitions so a stored result is followed through all later collection steps by the safety oracle.",
                tech="explicit-state BFS, weak-query monitor in every state, upgrade-store transitions"),
    "C06": dict(engine="explorer", cat="model_checking", ref="5/C06",
                text="Every sanctioned barrier path (Gc::write/unlock, Gc<Lock>/Gc<RefLock>/Gc<OnceLock> setters, mutate_root/map_root/try_map_root, stash, the four raw barrier forms incl. parent-only with two adoptions and child-only with two parents, the three weak forms, barrier-only calls) is a transition from every state; all later interleavings of collector increments follow by exploration under the safety oracle; C02 probe detects barrier side effects that retain garbage. Also: callbacks that adopt and unwind, weak pointers to unreachable targets changing holders under the explicit weak barriers, get_or_init on an empty OnceLock with a fresh value, the barrier scope under stop-the-world pacing, the root re-typing grid, and 23 programs in which every kind of holder allocation (fat / thin slices, header+slice with zero-sized and non-zero headers, arrays, Vec / Box as the allocated value, the three lock kinds) adopts a fresh object through its sanctioned write path in a fully marked arena under default and stop-the-world pacing.",
                tech="explicit-state BFS over barrier-path alphabet, closed scopes"),
    "C07": dict(engine="explorer", cat="model_checking", ref="5/C07",
                text="Finalize / resurrect operations (through finish_marking and through zero-debt mark_debt) in every state of the finalization scopes with non-wrapping collector calls: is_dead vs shadow reachability (exact when no mutation since marking began), resurrect result vs drop log, phase after resurrection, and protection of the strong closure of resurrected objects until the cycle ends. The MarkedArena linearity and token-discipline programs of C08 run here too (is_dead / resurrect need the Finalization context of the same arena: a Mutation, another arena's Finalization or a forged / opened MarkedArena is rejected); weak pointers never traced this cycle (held by dead objects, made inside finalize) and queries after a barrier in the same callback are part of the monitor.",
                tech="explicit-state BFS with finalization alphabet, per-cycle shadow bookkeeping"),
    "C08": dict(engine="explorer", cat="model_checking", ref="5/C08",
                text="Contract table (phase before, call, debt class zero/epsilon/huge) -> allowed (phase after, MarkedArena returned) checked on every transition and by a probe performing each API call with each debt class from every state. Root operations also go through map_root / try_map_root, and the root re-typing grid checks the protocol across a change of the root type. A compile-time half checks that a MarkedArena is a linear token (consumed by finalize / start_sweeping, borrows the arena mutably, cannot be cloned, forged, opened or outlive it; no Finalization context from a Mutation or for another arena).",
                tech="explicit-state BFS + per-state probe of every API call x debt class"),
    "C10": dict(engine="explorer", cat="model_checking", ref="5/C10",
                text="Metrics scope with the integer counters in the canonical state (non-tracing leaf objects, trace faults), barrier scope and a depth-bounded natural-debt scope with adjust_debt operations: count vs allocator, debt sign/finite/zero-when-empty, adjust exactness, debt never decreased by callbacks beyond forward-barrier mark credit, no panic (overflow checks and debug assertions are on); the harness's own debt normalisation before every debt-driven call is an oracle too (an adjustment of 1e6 cannot vanish, a positive debt adjusted to a target reads the target), and in every state an adjustment by exactly zero must leave the reported debt where it was (a stale cached value shows there). A finalization scope covers write barriers on an object revived in the same callback.",
                tech="explicit-state BFS with metric counters in the state hash; allocator-based count oracle"),
    "C11": dict(engine="explorer", cat="fault_enumeration", ref="5/C11",
                text="Fault transitions (panic in the k-th Collect::trace call of each collector call, panicking mutate / mutate_root callbacks after they mutated) from every state, unlimited repeats, also the same faulty call ten times within one transition (a trace method that keeps panicking), a finalization scope whose finalize callback resurrects and then unwinds; the per-state probes also run on every transition that ends in a caught panic and lands on an already known state (what unwinding leaves behind inside the library would be merged away); the caught state continues to be explored under the C01/C05 oracles and C02/C04 probes.",
                tech="exhaustive fault-point enumeration inside explicit-state BFS"),
    "C14": dict(engine="explorer", cat="model_checking", ref="5/C14",
                text="Stash / bulk stash (an existing and a fresh object in one callback) / stash-after-upgrade / clone / drop / fetch over 1-2 sets and up to 3 handles interleaved with collector increments, slot table in the state hash; handles are roots of the shadow (safety oracle + C02 probe = alive exactly while a handle exists); probes present every handle to the sibling set, to another arena's set and, after dropping the arena, to a live set; one scope repeats the probe on an explorer built without debug assertions and overflow checks.",
                tech="explicit-state BFS with dynamic-root alphabet + per-state foreign-presentation probe"),
    "C09": dict(engine="grid", cat="exploration", ref="5/C09", note="Trusted base: the harness workloads and the bound derivation in DESIGN.md 5/C09; configurations outside the enumerated factor values, bursts and workloads are not covered. One known finding (stop-the-world return on an empty heap) is listed in known_findings.json.",
                text="Every configuration of the stated grid (pacing factors satisfying the documented inequalities incl. stop-the-world, sleep parameters, six workload shapes, bursts, three drivers) is run on the real arena for 120 (thorough 400) rounds chained from the previous state; after every collector call: debt zero or stop phase, cycle bound A < rho*H/(1-rho) for cycles woken by a debt-driven call, stop-the-world rule, and the exact sleep threshold after every debt-free cycle. Scale cases (2 x 100 000 allocations, traceable, held by the root / in a chain / under one table) pacing-switch cases, resurrection cases (one dead object resurrected through 1 / 2 / 64 weak registrations, or an already queued object that many times: the cycle bound holds with one allocation per cycle_debt call) and sleep-switch cases (set_pacing with other sleep parameters during a sleep: the current allowance stays, the next one follows the new pacing) extend the grid; a per-case watchdog turns a collector call that never returns into a verdict.",
                tech="exhaustive enumeration of a finite configuration grid on the real code against a reference computation"),
    "C17": dict(engine="grid", cat="exploration", ref="5/C17", note="Trusted base: tracking allocator (layout pairing, quarantine), x86-64 / glibc; sizes and alignments outside the table are not covered.",
                text="Every (size, alignment) of the table for sized values, slices, str, header+slice (incl. zero-sized and over-aligned headers/elements/lengths), six per-value metadata types and per-type metadata: alignment and extent checked against the allocator block before writing, position-dependent pattern intact across collections and mid-cycle stops, released with the identical layout (collected / arena dropped asleep / arena dropped mid-sweep), fat/thin and raw-pointer round trips preserve address and length. A user-defined pointer metadata for an unsized value (u32 rows whose width is per-type metadata) is allocated, completed / abandoned and released under the same layout pairing.",
                tech="exhaustive enumeration of a layout grid on the real allocator path with a tracking allocator oracle"),
    "C18": dict(engine="grid", cat="exploration", ref="5/C18", note="Trusted base: tracking allocator, destructor log; element constructors panic via resume_unwind.",
                text="Every builder kind (incl. header+slice builders made for a Static header / Static elements / both and unwrapped) x abandonment point (fresh, after header, constructor panic at every index k <= n, completed) x element kind (token, no drop glue, zero-sized, over-aligned) x arena phase (Sleeping, Marking, Marked, Sweeping) x copy source length n-1/n/n+1: destructor log equals the initialised parts exactly once, block released, Gc count / debt bits / phase unchanged by abandonment, constructor called exactly once per index in order, no destructor runs inside a block that was already released, later collections and arena drop stay clean.",
                tech="exhaustive enumeration of builder abandonment points on the real code"),
    "C12": dict(engine="probes", cat="exploration", ref="5/C12", note=PROBE_NOTE + " Five root-type shapes of the implied-'static family are listed as known findings (rustc #25860 family).",
                text="Exhaustive enumeration of the brand-escape grammar (13 branded things x 17 escape routes x 8 API entry points, cross-arena uses under nested mutate / finalize, re-entrant collection calls, shrink/grow variance by value and behind references for 18 types, Send/Sync for 18 types incl. arenas with plain-data roots, root-type shapes implying 'gc: 'static): every negative program must be rejected by rustc, every positive twin accepted; accepted negatives are run to show the consequence. The payload lifetime of every written-to type (builders, Gc<Lock>, Gc<RefLock>) must neither shrink nor grow (D7), collection methods must demand a root that is Collect for every brand, and pointers that come out of conversions are escaping things too.",
                tech="exhaustive enumeration of a bounded program grammar, compiler verdict per program, execution of accepted programs"),
    "C13": dict(engine="probes", cat="exploration", ref="5/C13", note=PROBE_NOTE + " Two barrier bypasses under an implied 'gc: 'static root shape are listed as known findings (same root cause as C12's).",
                text="Typed term grammar (Write sources x 28 holder fields x projection chains up to depth 4/5 x sinks), typed under an over-approximate model so that impls that do not exist today are probed too; every program rustc accepts is run with the holder black in a fully marked arena and a fresh white child, violation = child reachable through the holder but destructed; fixed probes for forged Write, unsafe accessors, Cell/RefCell under derive with every mode/bound/require_static combination, std OnceCell / sync::OnceLock / Mutex / RwLock / Rc<RefCell> / Box<Cell> holding a pointer (under derive and as the allocated value), unlock! on every holder field from the holder and from a white co-owner, user Unlock/DerefWrite/IndexWrite impls and user index types; the sanctioned setters are run as controls.",
                tech="exhaustive enumeration of a typed program grammar; compiler verdict; accepted programs executed under a reachable-but-destructed oracle"),
    "C15": dict(engine="probes", cat="exploration", ref="5/C15", note=PROBE_NOTE,
                text="1503 (thorough: more) derived type shapes in one generated program: every struct kind x field combination, one-/two-/three-variant enums incl. require_static fields at the position of a pointer in another variant, generics instantiated with tracing and non-tracing types, modes, bound overrides, gc_lifetime headers; for every shape x active variant the recording Trace multiset must equal the pointers in traced fields (directly and through the NEEDS_TRACE gate) and NEEDS_TRACE must equal the disjunction; ~90 rejection probes with twins for every misuse the statement lists, in several positions.",
                tech="exhaustive enumeration of a type-shape grammar, generated crate executed against the generator's table; compiler verdict for misuse probes"),
    "C16": dict(engine="probes", cat="exploration", ref="5/C16", note=PROBE_NOTE + " Two feature sets in quick (default, all optional crates).",
                text="For every provided Collect impl x type-parameter position x element position (sizes 0..3, tuples of every arity x every position, wrapped VecDeque ring buffers, set/unset OnceLock, inline/spilled SmallVec, SlotMap after removal, optional crates) a Gc or GcWeak is placed in exactly that position and the recording Trace multiset compared through the NEEDS_TRACE gate; NEEDS_TRACE true whenever a parameter's is; an end-to-end survival program; 31 std wrappers / adaptors with no impl today (Cow borrowed from the heap, Reverse, Wrapping, Pin, ManuallyDrop, Poll, ControlFlow, iterators, std cells and locks, 17-tuples, references into the heap) that are either not Collect or keep what they hold alive as a root through two cycles; 35 types that must not be Collect<'gc> (interior mutability, non-'static references, Static of branded types, foreign brands, hashers holding pointers, static_collect! on branded types) with twins.",
                tech="exhaustive enumeration of impl x position grid in a generated program; compiler verdict for non-Collect probes"),
    "C19": dict(engine="probes", cat="exploration", ref="5/C19", note=PROBE_NOTE + " Run-time half: tracking allocator and destructor log. ZstCache::alloc_zst is a known finding.",
                text="Run-time half (grid): all chains up to length 2 (thorough 3) of identity-typed conversions on a sized value x 5 terminal conversions, chains up to 3 for slice / str / header+slice / unsized array / RefLock<dyn>, converted weak pointers, upgrade+convert+stash in every collector phase with the handle as the only root, ZstCache<1|8|64> x alignments x entry points: identity, dereference, survival through two cycles, single destruction. The builder grid of C18 runs as a further run-time stage (a builder that completes without the caller having supplied every element hands out a value nobody constructed). Rejection half (probes): every public unsafe fn / unsafe trait used without unsafe, builders' assume_init for uninhabited and private types, safe conjuring attempts.",
                tech="exhaustive enumeration of conversion chains on the real code + enumeration of conjuring programs with compiler verdict"),
    "C20": dict(engine="explorer", cat="model_checking", ref="5/C20",
                text="Product exploration of two real arenas with different pacing on one thread (allocation, links, weak pointers, handles, collector steps, dropping either arena): after every operation on one arena the other arena's canonical bookkeeping (incl. colours), drop log, Gc count, debt bits, phase and handles are bit-identical, its own oracles still hold, foreign handles are refused (also stale handles meeting recycled addresses after an arena died), and C02/C04 probes hold per arena in every product state. Compile-time half: 57 programs - every brand-preserving conversion applied to a pointer of arena 1 and used with arena 2 under nested callbacks, plus the cross-arena part of the C12 grammar - must be rejected (twins within one arena compile). Handles may be owned by heap values of the other arena (released when those are destructed), and a lifecycle grid requires a newly created arena to behave exactly as on a pristine thread after every sequence of <= 2 earlier arena lifecycles (pacing x outstanding Metrics clone x fate). A nested-operation grid issues 8 actions on arena B from inside destructors and callbacks that arena A runs (sweep, teardown asleep / mid-sweep, rootless_mutate, mutate / finalize / mutate_root callbacks) x 5 phases of B: B must behave exactly as when the action is issued at top level, A exactly as when the nested action does nothing.",
                tech="explicit-state BFS over the product of two real arenas, non-interference oracle; enumeration of cross-arena programs with compiler verdict"),
}

NOT_YET = {
}

def main():
    props = [json.loads(l) for l in open(os.path.join(VERIF, "properties.jsonl"))]
    checks = []
    na = []
    for p in props:
        pid = p["id"]
        if pid in CHECKS:
            c = CHECKS[pid]
            checks.append({
                "property_id": pid,
                "quick_cmd": f"./check {pid} --tier quick",
                "thorough_cmd": f"./check {pid} --tier thorough",
                "evidence_file": f"/verif/evidence/{pid}.json",
                "replay_cmd_template": "./check replay {path}",
                "engine": c["engine"],
                "level_claimed": {"category": c["cat"], "text": c["text"], "design_ref": f"DESIGN.md section {c['ref']}"},
                "level_note": c.get("note", EXPLORER_NOTE),
                "technique": c["tech"],
            })
        else:
            na.append({"property_id": pid, "reason": NOT_YET.get(pid, "check not built yet in this round (planned engine described in DESIGN.md section 5); not claimed until it exists")})
    hooks_commits = subprocess.run(["git", "-C", "/repo", "log", "--format=%H %s"], capture_output=True, text=True).stdout.splitlines()
    hook_shas = [l.split()[0] for l in hooks_commits if "verif hooks" in l]
    m = {
        "version": 1,
        "setup_cmd": "./check build",
        "hooks": {
            "guard": "gc_arena_verif",
            "enable": "RUSTFLAGS='--cfg gc_arena_verif' (set in /verif/harness/.cargo/config.toml; the harness depends on gc-arena by path = /repo and rebuilds it from the working tree)",
            "baseline_off_cmd": "cd /repo && cargo test --workspace --no-fail-fast --offline",
            "source_commits": hook_shas,
            "add_only": True,
        },
        "engines": [
            {"name": "explorer", "path": "/verif/harness", "serves_properties": sorted(k for k, v in CHECKS.items() if v["engine"] == "explorer"), "kind_free_text": "explicit-state breadth-first model checker over the real gc_arena::Arena (re-execution, canonical-state hashing, shadow-model oracles, per-state probes, fault transitions)"},
            {"name": "probes", "path": "/verif/lib", "serves_properties": sorted(k for k, v in CHECKS.items() if v["engine"] == "probes"), "kind_free_text": "deterministic generators expand a typed probe grammar into one tiny Rust program per point; rustc's verdict on each (metadata-only compile, 16 in parallel); accepted programs are built and run under an oracle"},
            {"name": "grid", "path": "/verif/harness/src/bin/grid", "serves_properties": sorted(k for k, v in CHECKS.items() if v["engine"] == "grid"), "kind_free_text": "exhaustive enumeration of finite configuration / layout / abandonment grids on the real code against reference computations (tracking allocator, destructor log)"},
        ],
        "checks": checks,
        "not_applicable": na,
        "notes": "Model checking family. exit 2 of a check = machinery failure (build error, determinism guard, vacuous coverage), never a verdict. Known findings: /verif/known_findings.json.",
    }
    json.dump(m, open(os.path.join(VERIF, "MANIFEST.json"), "w"), indent=1)
    print("checks:", len(checks), "not_applicable:", len(na))

if __name__ == "__main__":
    main()
