#!/usr/bin/env python3
"""Confirm a sub-agent's seeded change in its scratch worktree and file it under /verif/seeded/<id>/.
usage: confirm_seeded.py <prop> <mutant-name> (e.g. C02 m1)  [demo file override]
Checks: (1) patch applies on clean HEAD, (2) repository suite passes with it, (3) the demonstration fails with it,
(4) the demonstration passes without it."""
import json, os, re, shutil, subprocess, sys
prop, name = sys.argv[1], sys.argv[2]
BASE = os.environ.get("WTBASE", "/tmp/wt")
wt = f"{BASE}/{prop}"; out = f"{BASE}/out-{prop}"
diff = f"{out}/{name}.diff"
num = re.sub(r"\D", "", name)
demo = sys.argv[3] if len(sys.argv) > 3 and not sys.argv[3].startswith("--") else (f"{out}/demo_{num}.rs" if not name.startswith("extra") else f"{out}/extra_demo_{num}.rs")
feat = next((a.split("=",1)[1] for a in sys.argv if a.startswith("--features=")), "")
featflag = (f"--features {feat} " if feat else "") + ("--no-default-features " if "--nodefault" in sys.argv else "") + ("--release " if "--release" in sys.argv else "")
env = dict(os.environ, CARGO_NET_OFFLINE="true", RUST_BACKTRACE="0")
def sh(cmd, **kw): return subprocess.run(cmd, shell=True, cwd=wt, env=env, capture_output=True, text=True, **kw)
sh("git checkout -q -- . && rm -f tests/demo_*.rs tests/extra_demo_*.rs")
r = sh(f"git apply {diff}")
if r.returncode: print("PATCH FAILS", r.stderr); sys.exit(1)
suite = sh("cargo test --workspace --no-fail-fast --offline 2>&1")
res = re.findall(r"test result: (\w+)\. (\d+) passed; (\d+) failed", suite.stdout)
suite_ok = bool(res) and all(x[0] == "ok" for x in res) and any(int(x[1]) == 39 for x in res)
shutil.copy(demo, f"{wt}/tests/demo_x.rs")
with_m = sh(f"cargo test --offline {featflag}--test demo_x 2>&1")
demo_fails_with = with_m.returncode != 0 and "error: could not compile" not in with_m.stdout
sh("git checkout -q -- .")
without = sh(f"cargo test --offline {featflag}--test demo_x 2>&1")
demo_passes_without = without.returncode == 0
compile_fail_demo = "--compile-fail-demo" in sys.argv
if compile_fail_demo:
    # the demonstration is a program that must NOT compile: "passes" = rejected by the compiler on the unmodified tree
    demo_passes_without = "error: could not compile" in without.stdout and "error[E" in without.stdout
os.remove(f"{wt}/tests/demo_x.rs")
ok = suite_ok and demo_fails_with and demo_passes_without
print(f"{prop}/{name}: suite_ok={suite_ok} demo_fails_with={demo_fails_with} demo_passes_without={demo_passes_without} -> {'CONFIRMED' if ok else 'REJECTED'}")
if not ok:
    print(suite.stdout[-800:] if not suite_ok else "", with_m.stdout[-600:] if not demo_fails_with else "", without.stdout[-600:] if not demo_passes_without else "")
    sys.exit(1)
sid = f"{prop}-{name.replace('extra_', 'x')}"
d = f"/verif/seeded/{sid}"; os.makedirs(d, exist_ok=True)
shutil.copy(diff, f"{d}/patch.diff"); shutil.copy(demo, f"{d}/demo.rs")
notes = open(f"{out}/notes.md").read() if os.path.exists(f"{out}/notes.md") else ""
breaks = next((a.split("=",1)[1] for a in sys.argv if a.startswith("--prop=")), prop.rstrip("bcd"))
meta = {"id": sid, "breaks_property": breaks, "origin": "independent sub-agent given only the property text and a scratch worktree",
        "confirmed": {"suite_with_change": "all test binaries ok, 39/39 in tests/tests.rs", "demo_with_change": "fails", "demo_without_change": "rejected by the compiler (the demonstration is a program that must not compile)" if compile_fail_demo else "passes",
                      "commands": ["git apply patch.diff", "cargo test --workspace --no-fail-fast --offline", "cargo test --offline --test demo_x (with and without the change)"]},
        "needs_to_manifest": "", "detected_by": {}}
if feat:
    meta["demo_features"] = feat
if "--nodefault" in sys.argv:
    meta["demo_no_default_features"] = True
if "--release" in sys.argv:
    meta["demo_release_profile"] = True
if os.path.exists(f"{d}/meta.json"):
    old = json.load(open(f"{d}/meta.json")); meta["needs_to_manifest"] = old.get("needs_to_manifest", ""); meta["detected_by"] = old.get("detected_by", {})
json.dump(meta, open(f"{d}/meta.json", "w"), indent=1)
if notes: open(f"{d}/agent_notes.md", "w").write(notes)
