#!/bin/bash
# Development helper: every quick check against every behaviour-preserving change in /verif/benign (scratch copy);
# any non-zero exit is a false alarm (or a machinery failure) to be investigated.
export SCR=${SCR:-x}
/verif/tools/mutrun.sh setup >/dev/null 2>&1
for d in /verif/benign/b*.diff; do
  echo "== $(basename $d)"
  /verif/tools/mutrun.sh run $d C01 C02 C03 C04 C05 C06 C07 C08 C09 C10 C11 C12 C13 C14 C15 C16 C17 C18 C19 C20 | grep -v "rc=0" | cut -c1-300
done
echo done
