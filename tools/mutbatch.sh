#!/bin/bash
# run every mutant of the given property dirs against its own property check (scratch copy)
for P in "$@"; do
  for d in /tmp/wt/out-$P/m*.diff /tmp/wt/out-$P/extra_m*.diff; do
    [ -f "$d" ] || continue
    echo "== $P $(basename $d)"
    Q=$(echo $P | sed "s/[bcd]$//"); Q=${Q%c}; /verif/tools/mutrun.sh run $d $Q
  done
done
