pub use gc_arena;
