//! Plain unit test that replays a recorded violation without the explorer:
//!   REPLAY=/verif/replays/C01-xxxx.json cargo test --release --test replay -- --nocapture
//! Without REPLAY it replays a built-in history that must hold on a correct tree.
use gcv::{engine::{Single, run_history, run_history_full}, json, ops::Op, scopes};

#[test]
fn replay() {
    std::panic::set_hook(Box::new(|_| {}));
    let (scope, ops, probes) = match std::env::var("REPLAY") {
        Ok(f) => {
            let j = json::parse(&std::fs::read_to_string(&f).expect("read replay file")).expect("parse");
            let scope = j.get("scope").and_then(|s| s.as_str()).expect("scope").to_string();
            let ops: Vec<Op> = j.get("history").and_then(|a| a.as_arr()).expect("history").iter().map(|s| Op::parse(s.as_str().unwrap()).expect("op")).collect();
            (scope, ops, j.get("probes").and_then(|s| s.as_str()).unwrap_or("").to_string())
        }
        Err(_) => ("S2".to_string(), ["NewRoot(0,0)", "NewChild(0,0)", "SetWeak(0,1)", "FinMark", "Unlink(0,0)", "StartSweep", "UpStore(0,0,0)", "FinCycle"].iter().map(|s| Op::parse(s).unwrap()).collect(), String::new()),
    };
    let sc = scopes::scope(&scope).expect("scope (product scopes are replayed with ./check replay)");
    let a = run_history_full::<Single>(&sc, &ops);
    let b = run_history_full::<Single>(&sc, &ops);
    assert_eq!(format!("{a:?}"), format!("{b:?}"), "replay is not deterministic");
    if let Err((i, v)) = a {
        panic!("violated at step {i} ({:?}): {} - {}", ops.get(i), v.oracle, v.msg);
    }
    let mut p = scopes::Probes::default();
    for t in probes.split(',') {
        match t { "c02" => p.c02 = true, "c03" => p.c03 = true, "c04" => p.c04 = true, "c08" => p.c08 = true, "c14" => p.c14 = true, _ => {} }
    }
    let (_, pv) = run_history::<Single>(&sc, &ops, &p);
    if let Some((i, v)) = pv.first() {
        panic!("violated in probe {i}: {} - {}", v.oracle, v.msg);
    }
}
