//! Level-synchronous breadth-first explicit-state search over the real implementation
//! (DESIGN.md 3.6). A state is an operation history; successors are obtained by re-execution on a
//! fresh arena; states are de-duplicated on the 128-bit hash of their canonical form.

use std::collections::HashMap;
use std::sync::atomic::{AtomicBool, AtomicUsize, Ordering};
use std::time::Instant;

use crate::{
    VResult, Viol, hash128,
    json::J,
    ops::{K, Op, fmt_hist},
    scopes::{Probes, Scope, owned_by},
    talloc,
    wmon::is_nofire,
    world::{Cov, World, close_window, fresh_window},
};

/// A system under exploration.
pub trait Sys: Sized {
    fn create(sc: &Scope) -> Self;
    fn enabled(&self) -> Vec<Op>;
    fn apply(&mut self, op: Op) -> VResult;
    fn canon(&self, out: &mut Vec<u8>);
    fn set_verify(&mut self, v: bool);
    fn finish(self) -> VResult;
    fn take_cov(&mut self) -> Cov;
    /// Number of probe executions available for `probes` in this state.
    fn probe_count(&self, probes: &Probes) -> usize;
    /// Run probe number `i` (consumes the system).
    fn probe(self, probes: &Probes, i: usize) -> VResult;
}

pub struct Single(pub World);

impl Sys for Single {
    fn create(sc: &Scope) -> Self {
        Single(World::new(*sc, 0))
    }
    fn enabled(&self) -> Vec<Op> {
        self.0.enabled()
    }
    fn apply(&mut self, op: Op) -> VResult {
        self.0.apply(op)
    }
    fn canon(&self, out: &mut Vec<u8>) {
        self.0.canon(out)
    }
    fn set_verify(&mut self, v: bool) {
        self.0.verify = v;
    }
    fn finish(self) -> VResult {
        self.0.finish()
    }
    fn take_cov(&mut self) -> Cov {
        std::mem::take(&mut self.0.cov)
    }
    fn probe_count(&self, p: &Probes) -> usize {
        let mut n = 0;
        if p.c02 {
            n += 1;
        }
        if p.c04 {
            n += 1;
        }
        if p.c03 {
            n += 1;
        }
        if p.c14 {
            n += 1;
        }
        if p.c11 {
            n += World::C11_PROBES as usize;
        }
        if p.c08 {
            n += World::C08_PROBES as usize;
        }
        n
    }
    fn probe(self, p: &Probes, mut i: usize) -> VResult {
        if p.c02 {
            if i == 0 {
                return self.0.probe_c02();
            }
            i -= 1;
        }
        if p.c04 {
            if i == 0 {
                return self.0.probe_c04();
            }
            i -= 1;
        }
        if p.c03 {
            if i == 0 {
                return self.0.probe_c03();
            }
            i -= 1;
        }
        if p.c14 {
            if i == 0 {
                return self.0.probe_c14();
            }
            i -= 1;
        }
        if p.c11 {
            if i < World::C11_PROBES as usize {
                return self.0.probe_c11(i as u8);
            }
            i -= World::C11_PROBES as usize;
        }
        self.0.probe_c08(i as u8)
    }
}

#[derive(Clone, Copy)]
struct Entry {
    hash: u128,
    parent: u32,
    op: Op,
    depth: u16,
}

#[derive(Clone, Debug)]
pub struct Found {
    pub hist: Vec<Op>,
    pub viol: Viol,
    pub probe: Option<usize>,
}

#[derive(Default)]
pub struct Outcome {
    pub scope: String,
    pub states: u64,
    pub transitions: u64,
    pub executions: u64,
    pub probe_runs: u64,
    pub max_depth: usize,
    pub closed: bool,
    pub cap_hit: Option<String>,
    /// the scope's own depth bound was reached (the space "all histories up to that depth" was enumerated completely)
    pub depth_bound_reached: Option<usize>,
    pub last_full_level: usize,
    pub violations: Vec<Found>,
    pub foreign: std::collections::BTreeMap<String, u64>,
    pub machinery: Vec<String>,
    pub cov: Cov,
    pub samples: Vec<Vec<Op>>,
    pub wall_s: f64,
    pub level_sizes: Vec<u64>,
}

pub struct Limits {
    pub max_states: u64,
    pub max_secs: f64,
    pub threads: usize,
    /// stop after the level in which the first owned violation was found
    pub stop_on_violation: bool,
}

struct StateOut {
    succ: Vec<(Op, u128)>,
    transitions: u64,
    executions: u64,
    probe_runs: u64,
    found: Vec<Found>,
    foreign: Vec<(&'static str, u64)>,
    machinery: Vec<String>,
    cov: Cov,
}

thread_local! { static CUR_PROBE: std::cell::Cell<Option<usize>> = const { std::cell::Cell::new(None) }; }

/// Run `hist` on a fresh system inside a fresh allocator window; `f` receives the system after the
/// history was applied. Prefix oracles are off except for the last operation.
fn execute<S: Sys, T>(sc: &Scope, hist: &[Op], verify_last: bool, f: impl FnOnce(S) -> Result<T, Viol>) -> Result<T, Viol> {
    crate::crash::note(sc.name, hist, CUR_PROBE.with(|p| p.get()));
    fresh_window();
    // a panic that escapes outside a guarded subject call (e.g. from a Metrics getter the monitors
    // call) is a violation at this history, not a dead worker
    let res = std::panic::catch_unwind(std::panic::AssertUnwindSafe(|| {
        let mut s = S::create(sc);
        s.set_verify(false);
        for (i, op) in hist.iter().enumerate() {
            if verify_last && i + 1 == hist.len() {
                s.set_verify(true);
                // coverage counters count transitions, not replayed prefixes
                let _ = s.take_cov();
            }
            s.apply(*op)?;
        }
        s.set_verify(true);
        f(s)
    }))
    .unwrap_or_else(|p| Err(Viol::new("api.panic", format!("panic outside a guarded call (observer or constructor): {}", crate::wops::panic_msg(&p)))));
    let rep = close_window();
    crate::crash::exec_end();
    let leaked: Vec<_> = rep.leaked.iter().filter(|b| b.subject).collect();
    let teardown = if !rep.errors.is_empty() {
        Some(Viol::new("alloc.error", rep.errors.join("; ")))
    } else if !leaked.is_empty() {
        Some(Viol::new(
            "c04.leak",
            format!("{} allocation(s) made by the arena were never returned to the allocator (first: size {}, align {}, gc id {})", leaked.len(), leaked[0].size, leaked[0].align, leaked[0].gc_id as i64),
        ))
    } else {
        None
    };
    match (res, teardown) {
        (Ok(r), None) => Ok(r),
        (Ok(_), Some(t)) => Err(t),
        (Err(mut v), t) => {
            // (the system was dropped when the step failed: the teardown report belongs to the same history)
            if let Some(mut t) = t {
                t.msg = format!("{} (the execution had already stopped at {}: {})", t.msg, v.oracle, v.msg);
                v.also = Some(Box::new(t));
            }
            Err(v)
        }
    }
}

/// Public single-history execution (replay): returns the violation, if any, and the canonical hash.
pub fn run_history<S: Sys>(sc: &Scope, hist: &[Op], probes: &Probes) -> (Result<u128, Viol>, Vec<(usize, Viol)>) {
    let r = execute::<S, u128>(sc, hist, true, |mut s| {
        // verify every step on replay
        let mut v = Vec::new();
        s.canon(&mut v);
        let _ = s.take_cov();
        s.finish()?;
        Ok(hash128(&v))
    });
    let mut pv = vec![];
    if r.is_ok() {
        let n = execute::<S, usize>(sc, hist, false, |s| {
            let n = s.probe_count(probes);
            s.finish()?;
            Ok(n)
        })
        .unwrap_or(0);
        for i in 0..n {
            if let Err(v) = execute::<S, ()>(sc, hist, false, |s| s.probe(probes, i)) {
                pv.push((i, v));
            }
        }
    }
    (r, pv)
}

/// Like `run_history` but with all oracles on for every step.
pub fn run_history_full<S: Sys>(sc: &Scope, hist: &[Op]) -> Result<u128, (usize, Viol)> {
    fresh_window();
    let res = (|| {
        let mut s = S::create(sc);
        s.set_verify(true);
        for (i, op) in hist.iter().enumerate() {
            s.apply(*op).map_err(|v| (i, v))?;
        }
        let mut v = Vec::new();
        s.canon(&mut v);
        s.finish().map_err(|v| (hist.len(), v))?;
        Ok(hash128(&v))
    })();
    let rep = close_window();
    let h = res?;
    if !rep.errors.is_empty() {
        return Err((hist.len(), Viol::new("alloc.error", rep.errors.join("; "))));
    }
    if rep.leaked.iter().any(|b| b.subject) {
        return Err((hist.len(), Viol::new("c04.leak", "allocation made by the arena never returned")));
    }
    Ok(h)
}

fn history(table: &[Entry], mut idx: u32) -> Vec<Op> {
    let mut h = Vec::with_capacity(table[idx as usize].depth as usize);
    while idx != 0 {
        let e = &table[idx as usize];
        h.push(e.op);
        idx = e.parent;
    }
    h.reverse();
    h
}

pub fn explore<S: Sys>(sc: &Scope, prop: &str, probes: &Probes, lim: &Limits) -> Outcome {
    let t0 = Instant::now();
    let mut out = Outcome { scope: sc.name.to_string(), ..Default::default() };
    let mut table: Vec<Entry> = Vec::new();
    let mut index: HashMap<u128, u32> = HashMap::new();

    // initial state
    let h0 = match execute::<S, u128>(sc, &[], true, |s| {
        let mut v = Vec::new();
        s.canon(&mut v);
        s.finish()?;
        Ok(hash128(&v))
    }) {
        Ok(h) => h,
        Err(v) => {
            // creating and dropping the system already violates an oracle: a violation of this
            // property if it owns the oracle (empty history), otherwise nothing can be explored
            if owned_by(v.oracle, prop) {
                out.violations.push(Found { hist: vec![], viol: v, probe: None });
                out.cap_hit = Some("the initial state violates the property".into());
                out.wall_s = t0.elapsed().as_secs_f64();
            } else {
                out.machinery.push(format!("initial state failed: {} {}", v.oracle, v.msg));
            }
            return out;
        }
    };
    table.push(Entry { hash: h0, parent: 0, op: Op::n0(crate::ops::K::Garbage), depth: 0 });
    index.insert(h0, 0);
    let mut frontier: Vec<u32> = vec![0];
    let mut depth = 0usize;
    let stop = AtomicBool::new(false);

    while !frontier.is_empty() {
        if sc.max_depth != 0 && depth >= sc.max_depth {
            out.depth_bound_reached = Some(sc.max_depth);
            break;
        }
        out.level_sizes.push(frontier.len() as u64);
        let next = AtomicUsize::new(0);
        let nthreads = lim.threads.min(frontier.len()).max(1);
        let table_ref = &table;
        let index_ref = &index;
        let frontier_ref = &frontier;
        let stop_ref = &stop;
        let mut results: Vec<Option<StateOut>> = Vec::new();
        results.resize_with(frontier.len(), || None);
        let results_ptr = std::sync::Mutex::new(&mut results);
        std::thread::scope(|scope| {
            for _ in 0..nthreads {
                scope.spawn(|| {
                    let mut local: Vec<(usize, StateOut)> = Vec::new();
                    loop {
                        if stop_ref.load(Ordering::Relaxed) {
                            break;
                        }
                        let i = next.fetch_add(1, Ordering::Relaxed);
                        if i >= frontier_ref.len() {
                            break;
                        }
                        let idx = frontier_ref[i];
                        let so = expand::<S>(sc, prop, probes, table_ref, index_ref, idx);
                        local.push((i, so));
                        if local.len() >= 256 {
                            let mut g = results_ptr.lock().unwrap();
                            for (i, so) in local.drain(..) {
                                g[i] = Some(so);
                            }
                        }
                        if i % 64 == 0 && t0.elapsed().as_secs_f64() > lim.max_secs {
                            stop_ref.store(true, Ordering::Relaxed);
                        }
                    }
                    let mut g = results_ptr.lock().unwrap();
                    for (i, so) in local.drain(..) {
                        g[i] = Some(so);
                    }
                });
            }
        });
        // merge in frontier order => deterministic numbering
        let mut new_frontier = Vec::new();
        let mut complete = true;
        for (i, so) in results.into_iter().enumerate() {
            let Some(so) = so else {
                complete = false;
                continue;
            };
            let parent = frontier[i];
            out.transitions += so.transitions;
            out.executions += so.executions;
            out.probe_runs += so.probe_runs;
            out.cov.merge(&so.cov);
            for (k, n) in so.foreign {
                *out.foreign.entry(k.to_string()).or_insert(0) += n;
            }
            out.machinery.extend(so.machinery);
            out.violations.extend(so.found);
            for (op, h) in so.succ {
                if !index.contains_key(&h) {
                    let id = table.len() as u32;
                    index.insert(h, id);
                    table.push(Entry { hash: h, parent, op, depth: depth as u16 + 1 });
                    new_frontier.push(id);
                }
            }
        }
        if !complete {
            out.cap_hit = Some(format!("wall-clock cap {} s reached while expanding level {}", lim.max_secs, depth));
            break;
        }
        out.last_full_level = depth;
        depth += 1;
        if !new_frontier.is_empty() {
            out.max_depth = depth;
        }
        frontier = new_frontier;
        if !out.machinery.is_empty() {
            break;
        }
        if lim.stop_on_violation && !out.violations.is_empty() {
            out.cap_hit = Some("stopped at the first level containing a violation".into());
            break;
        }
        if table.len() as u64 > lim.max_states {
            out.cap_hit = Some(format!("state cap {} reached after level {}", lim.max_states, depth - 1));
            break;
        }
        if t0.elapsed().as_secs_f64() > lim.max_secs {
            out.cap_hit = Some(format!("wall-clock cap {} s reached after level {}", lim.max_secs, depth - 1));
            break;
        }
    }
    out.closed = out.cap_hit.is_none() && out.machinery.is_empty();
    out.states = table.len() as u64;
    // samples: a few representative histories
    let n = table.len();
    let mut picks = vec![n / 7, n / 3, n / 2, (2 * n) / 3, n - 1];
    picks.dedup();
    for p in picks {
        if p < n {
            out.samples.push(history(&table, p as u32));
        }
    }
    out.wall_s = t0.elapsed().as_secs_f64();
    out
}

fn expand<S: Sys>(sc: &Scope, prop: &str, probes: &Probes, table: &[Entry], index: &HashMap<u128, u32>, idx: u32) -> StateOut {
    let mut so = StateOut { succ: vec![], transitions: 0, executions: 0, probe_runs: 0, found: vec![], foreign: vec![], machinery: vec![], cov: Cov::default() };
    let hist = history(table, idx);
    // 1. replay, determinism guard, menu
    so.executions += 1;
    let r = execute::<S, (Vec<Op>, u128, usize)>(sc, &hist, false, |s| {
        let mut v = Vec::new();
        s.canon(&mut v);
        let ops = s.enabled();
        let np = s.probe_count(probes);
        s.finish()?;
        Ok((ops, hash128(&v), np))
    });
    let (ops, h, np) = match r {
        Ok(x) => x,
        Err(v) => {
            so.machinery.push(format!("replay of a known state failed ({} {}): history {:?}", v.oracle, v.msg, hist));
            return so;
        }
    };
    if h != table[idx as usize].hash {
        so.machinery.push(format!("determinism guard: replay of state {idx} reached a different canonical state; history {:?}", hist));
        return so;
    }
    let mut note = |so: &mut StateOut, hist: Vec<Op>, v: Viol, probe: Option<usize>| {
        if owned_by(v.oracle, prop) {
            so.found.push(Found { hist, viol: v, probe });
        } else if !v.oracle.starts_with("harness") && !is_nofire(&v) && v.also.as_ref().map(|a| owned_by(a.oracle, prop)).unwrap_or(false) {
            let a = *v.also.unwrap();
            so.found.push(Found { hist, viol: a, probe });
        } else if v.oracle.starts_with("harness") {
            so.machinery.push(format!("{}: {} history {:?}", v.oracle, v.msg, hist));
        } else {
            match so.foreign.iter_mut().find(|e| e.0 == v.oracle) {
                Some(e) => e.1 += 1,
                None => so.foreign.push((v.oracle, 1)),
            }
        }
    };
    // 2. successors
    let mut h2 = hist.clone();
    for op in ops {
        h2.push(op);
        so.executions += 1;
        let r = execute::<S, (u128, Cov)>(sc, &h2, true, |mut s| {
            let mut v = Vec::new();
            s.canon(&mut v);
            let cov = s.take_cov();
            s.finish()?;
            Ok((hash128(&v), cov))
        });
        match r {
            Ok((h, cov)) => {
                so.transitions += 1;
                so.cov.merge(&cov);
                if !index.contains_key(&h) {
                    so.succ.push((op, h));
                } else if matches!(op.k, K::Fault | K::PLink | K::PGarbage | K::PNewRoot | K::PFin | K::PDropH) && probes.any() {
                    // A transition that ends in a caught panic and lands on a state that is already known: whatever the
                    // unwinding left behind inside the library that the canonical form does not show (a flag not reset,
                    // a guard not run) would be merged away. The per-state probes are therefore run on THIS history too.
                    let n = execute::<S, usize>(sc, &h2, false, |s| {
                        let n = s.probe_count(probes);
                        s.finish()?;
                        Ok(n)
                    })
                    .unwrap_or(0);
                    for i in 0..n {
                        so.executions += 1;
                        so.probe_runs += 1;
                        CUR_PROBE.with(|p| p.set(Some(i)));
                        let r = execute::<S, ()>(sc, &h2, false, |s| s.probe(probes, i));
                        CUR_PROBE.with(|p| p.set(None));
                        if let Err(v) = r {
                            note(&mut so, h2.clone(), v, Some(i));
                        }
                    }
                }
            }
            Err(v) if is_nofire(&v) => {}
            Err(v) => note(&mut so, h2.clone(), v, None),
        }
        h2.pop();
    }
    // 3. probes in this state
    for i in 0..np {
        so.executions += 1;
        so.probe_runs += 1;
        CUR_PROBE.with(|p| p.set(Some(i)));
        let r = execute::<S, ()>(sc, &hist, false, |s| s.probe(probes, i));
        CUR_PROBE.with(|p| p.set(None));
        if let Err(v) = r {
            note(&mut so, hist.clone(), v, Some(i));
        }
    }
    so
}

pub fn outcome_json(o: &Outcome) -> J {
    let mut cells = vec![];
    const COL: [&str; 4] = ["White", "WhiteWeak", "Gray", "Black"];
    const PHS: [&str; 4] = ["Sleep", "Mark", "Sweep", "Drop"];
    for p in 0..4 {
        for c in 0..4 {
            for l in 0..2 {
                if o.cov.cells[p][c][l] > 0 {
                    cells.push(J::Str(format!("{}/{}/{}", PHS[p], COL[c], if l == 1 { "live" } else { "shell" })));
                }
            }
        }
    }
    let mut named = J::obj();
    for (k, v) in &o.cov.named {
        named.set(k, *v);
    }
    let mut foreign = J::obj();
    for (k, v) in &o.foreign {
        foreign.set(k, *v);
    }
    J::obj()
        .with("scope", o.scope.as_str())
        .with("states", o.states)
        .with("transitions", o.transitions)
        .with("executions", o.executions)
        .with("probe_runs", o.probe_runs)
        .with("max_depth", o.max_depth)
        .with("closed", o.closed)
        .with("cap_hit", match &o.cap_hit {
            Some(s) => J::Str(s.clone()),
            None => J::Null,
        })
        .with("depth_bound_reached", match o.depth_bound_reached {
            Some(d) => J::Int(d as i64),
            None => J::Null,
        })
        .with("last_fully_expanded_level", o.last_full_level)
        .with("level_sizes", o.level_sizes.clone())
        .with("phase_colour_live_cells_seen", J::Arr(cells))
        .with("coverage_counters", named)
        .with("pruned_by_foreign_oracle", foreign)
        .with("machinery_errors", o.machinery.clone())
        .with("violations", J::Arr(o.violations.iter().take(5).map(|f| J::obj().with("oracle", f.viol.oracle).with("message", f.viol.msg.as_str()).with("history", fmt_hist(&f.hist)).with("probe", f.probe.map(|p| J::Int(p as i64)).unwrap_or(J::Null))).collect()))
        .with("samples", J::Arr(o.samples.iter().map(|h| J::from(fmt_hist(h))).collect()))
        .with("wall_s", o.wall_s)
}

#[allow(dead_code)]
fn _unused() {
    let _ = talloc::window_open();
}
