//! The operation alphabet (DESIGN.md 3.5). Objects are named by harness id (allocation counter of
//! the execution, deterministic under replay).

use std::fmt;

macro_rules! opkinds {
    ($($name:ident = $n:expr, $arity:expr;)*) => {
        #[derive(Clone, Copy, PartialEq, Eq, Hash, PartialOrd, Ord, Debug)]
        #[repr(u8)]
        pub enum K { $($name = $n,)* }
        impl K {
            pub const ALL: &'static [K] = &[$(K::$name,)*];
            pub fn name(self) -> &'static str { match self { $(K::$name => stringify!($name),)* } }
            pub fn arity(self) -> usize { match self { $(K::$name => $arity,)* } }
            pub fn from_name(s: &str) -> Option<K> { match s { $(stringify!($name) => Some(K::$name),)* _ => None } }
        }
    };
}

opkinds! {
    // ---- mutator: roots (via: 0 = mutate_root, 1 = map_root, 2 = try_map_root Ok) ----
    NewRoot = 0, 2;        // (r, via)
    ClearRoot = 1, 2;      // (r, via)
    CopyRoot = 2, 3;       // (r, c, via)
    // ---- mutator: graph through Gc::write + field! + index + unlock ----
    NewChild = 3, 2;       // (p, s)
    Link = 4, 3;           // (p, s, c)
    Unlink = 5, 2;         // (p, s)
    SetWeak = 6, 2;        // (p, c)
    ClearWeak = 7, 1;      // (p)
    UpOnly = 96, 1;        // (h): upgrade h.w in a callback and let the result go (a pure weak look-up)
    UpStore = 8, 3;        // (h, q, s): upgrade h.w, store into q.s[s]
    UpRoot = 9, 2;         // (h, r): upgrade h.w, store into root slot r
    Garbage = 10, 0;
    NewChildHolding = 86, 3; // (p, s, c): allocate a node that holds c in its slot 0 from construction, store it into p.s[s]
    NewRootHolding = 87, 2;  // (r, c): the same into root slot r
    // ---- barrier paths (C06) ----
    AdoptNew = 11, 3;      // (path, p, s)
    Adopt = 12, 4;         // (path, p, s, c)
    AdoptUp = 13, 4;       // (path, h, p, s)
    AdoptWeak = 14, 3;     // (path, p, c)
    AdoptWeakNew = 15, 2;  // (path, p)
    AdoptWeakFrom = 91, 3; // (path, p, h): p.w = h.w (an existing weak pointer, its target possibly destructed) under an explicit weak barrier
    BarrierOnly = 16, 3;   // (path, p, c)
    Adopt2 = 17, 3;        // (p, c0, c1): backward_barrier(p, None) then two raw stores
    AdoptBy2 = 18, 3;      // (c, p0, p1): forward_barrier(None, c) then raw stores into p0.s[0], p1.s[0]
    NewCell = 19, 2;       // (p, kind): kind 0 Lock 1 RefLock 2 OnceLock 3 Lock<weak> 4 RefLock<weak>, stored in p.cell through Gc::write
    DropCell = 20, 1;      // (p)
    CellSet = 21, 2;       // (p, c): Gc<Lock>::set / Gc<RefLock>::borrow_mut / Gc<OnceLock>::set
    CellSetNew = 22, 1;    // (p)
    CellInitNew = 90, 1;   // (p): Gc<OnceLock>::get_or_init on an EMPTY cell with a closure that allocates a fresh node
    CellClear = 23, 1;     // (p)
    CellSetWeak = 93, 2;   // (p, c): weak cell of p (kind 3 Gc<Lock<Option<GcWeak>>> / 4 Gc<RefLock<..>>) := downgrade(c) through the safe setter
    CellSetWeakNew = 94, 1; // (p): the same with a fresh node nobody else points to
    CellInit = 24, 2;      // (p, c): Gc<OnceLock>::get_or_init
    CellSetUp = 25, 2;     // (h, p): upgrade h.w then CellSet
    // ---- non-tracing leaf objects (C10) ----
    NewLeaf = 26, 1;       // (p)
    TouchLeaf = 27, 1;     // (p)
    DropLeaf = 28, 1;      // (p)
    AdoptLeaf = 97, 3;     // (path, p, q): p.leaf = q.leaf (a non-tracing object as the CHILD) after a raw barrier: 1 backward(p, leaf) 2 backward(p) 3 forward(p, leaf) 4 forward(None, leaf)
    LeafBarrier = 80, 3;   // (path, p, c): raw barrier with the non-tracing leaf of p as parent and node c as child
    SetWeakLeaf = 81, 2;   // (p, q): p.wl = downgrade(q.leaf)
    ClearWeakLeaf = 82, 1; // (p)
    UpLeaf = 83, 2;        // (h, p): upgrade h.wl and store it as p.leaf
    FinResLeaf = 84, 1;    // (p): resurrect p.wl's target (a non-tracing object)
    // ---- dynamic roots (C14) ----
    Stash = 29, 3;         // (hi, c, set)
    CloneH = 30, 2;        // (from, to)
    StashPair = 100, 3;    // (hi, c, set): bulk stashing in ONE callback: stash node c into handle hi, then a fresh node into handle hi+1
    StashLeaf = 98, 3;     // (hi, p, set): stash p's leaf (an object of a type that needs no tracing)
    DropHL = 99, 1;        // (hi): drop a leaf handle
    CloneFromH = 92, 2;    // (from, to): `to` is an EXISTING handle: hs[to].clone_from(&hs[from])
    DropH = 31, 1;         // (hi)
    FetchRoot = 32, 2;     // (hi, r)
    FetchLink = 33, 3;     // (hi, p, s)
    PDropH = 85, 1;        // (hi): the handle is dropped while a caught panic unwinds
    StashUp = 38, 3;       // (hi, h, set): upgrade h.w, stash the result
    // ---- finalization (C07) ----
    FinQuery = 34, 1;      // (via): 0 = finish_marking, 1 = mark_debt with zero debt (only if it hands out a MarkedArena)
    FinRes = 35, 1;        // (p): resurrect p.w's target, keep nothing
    FinResStore = 36, 3;   // (p, q, s): resurrect p.w's target and store it into q.s[s] (Gc::write through Finalization)
    FinResInto = 95, 2;    // (p, c): resurrect p.w's target and, in the same callback, WRITE into the revived object (its slot 0 := c, through Gc::write)
    FinResChild = 39, 1;   // (p): upgrade p.w's target during finalization and Gc::resurrect its strong child s[0] (a plain-white dead object)
    FinGcRes = 37, 1;      // (p): upgrade-free path: Gc::resurrect on the strong child p.w -> via GcWeak::upgrade if possible
    // ---- collector (class: 0 = debt eps, 1 = debt zero, 2 = debt huge) ----
    CycleStep = 40, 1;
    MarkStep = 41, 1;
    Step = 42, 1;
    FinMark = 43, 0;
    FinCycle = 44, 0;
    StartSweep = 45, 0;
    // ---- faults (C11) ----
    Fault = 50, 2;         // (which, k): panic in the k-th trace call of collector call `which`
    PLink = 51, 3;         // (p, s, c): mutate callback links then panics
    PNewRoot = 52, 1;      // (r): mutate_root callback allocates, stores, panics
    PFin = 53, 1;          // (p): finalize callback resurrects p.w's target then panics
    PGarbage = 54, 0;      // mutate callback allocates then panics
    // ---- natural-debt scope (C10 ii) ----
    AdjustDebt = 60, 1;    // (index into table)
    SetPacing = 61, 1;     // (index into table)
    // ---- product scope (C20) ----
    DropArena = 70, 0;
    PresentForeign = 71, 1; // (hi) present own handle hi to the other arena's set
    Lend = 72, 2;           // (hi, b): handle hi of the OTHER arena moves into node b of this arena's heap
}

#[derive(Clone, Copy, PartialEq, Eq, Hash, PartialOrd, Ord)]
pub struct Op {
    pub k: K,
    pub a: u8,
    pub b: u8,
    pub c: u8,
    pub d: u8,
    /// which arena (product scope), else 0
    pub w: u8,
}

impl Op {
    pub fn n0(k: K) -> Op {
        Op { k, a: 0, b: 0, c: 0, d: 0, w: 0 }
    }
    pub fn n1(k: K, a: u8) -> Op {
        Op { k, a, b: 0, c: 0, d: 0, w: 0 }
    }
    pub fn n2(k: K, a: u8, b: u8) -> Op {
        Op { k, a, b, c: 0, d: 0, w: 0 }
    }
    pub fn n3(k: K, a: u8, b: u8, c: u8) -> Op {
        Op { k, a, b, c, d: 0, w: 0 }
    }
    pub fn n4(k: K, a: u8, b: u8, c: u8, d: u8) -> Op {
        Op { k, a, b, c, d, w: 0 }
    }
    pub fn on(mut self, w: u8) -> Op {
        self.w = w;
        self
    }
    pub fn is_collector(self) -> bool {
        matches!(self.k, K::CycleStep | K::MarkStep | K::Step | K::FinMark | K::FinCycle | K::StartSweep | K::Fault)
    }
    pub fn is_fin(self) -> bool {
        matches!(self.k, K::FinQuery | K::FinRes | K::FinResStore | K::FinResInto | K::FinGcRes | K::PFin | K::FinResLeaf | K::FinResChild)
    }
    /// A mutator callback (`mutate`, `mutate_root`, `map_root`, `try_map_root`).
    pub fn is_mutator(self) -> bool {
        !self.is_collector()
            && !self.is_fin()
            && !matches!(self.k, K::CloneH | K::CloneFromH | K::DropH | K::DropHL | K::PDropH | K::AdjustDebt | K::SetPacing | K::DropArena | K::PresentForeign)
    }
    pub fn parse(s: &str) -> Option<Op> {
        // "Name(a,b)" or "Name" or "w1:Name(a)"
        let s = s.trim();
        let (w, s) = if let Some(rest) = s.strip_prefix("w1:") { (1u8, rest) } else if let Some(rest) = s.strip_prefix("w0:") { (0u8, rest) } else { (0u8, s) };
        let (name, args) = match s.find('(') {
            Some(i) => (&s[..i], s[i + 1..].trim_end_matches(')')),
            None => (s, ""),
        };
        let k = K::from_name(name)?;
        let mut v = [0u8; 4];
        let mut n = 0;
        for (i, t) in args.split(',').filter(|t| !t.trim().is_empty()).enumerate() {
            if i >= 4 {
                return None;
            }
            v[i] = t.trim().parse().ok()?;
            n = i + 1;
        }
        if n != k.arity() {
            return None;
        }
        Some(Op { k, a: v[0], b: v[1], c: v[2], d: v[3], w })
    }
}

impl fmt::Debug for Op {
    fn fmt(&self, f: &mut fmt::Formatter<'_>) -> fmt::Result {
        if self.w != 0 {
            write!(f, "w{}:", self.w)?;
        }
        write!(f, "{}", self.k.name())?;
        let args = [self.a, self.b, self.c, self.d];
        let n = self.k.arity();
        if n > 0 {
            write!(f, "(")?;
            for i in 0..n {
                if i > 0 {
                    write!(f, ",")?;
                }
                write!(f, "{}", args[i])?;
            }
            write!(f, ")")?;
        }
        Ok(())
    }
}

impl fmt::Display for Op {
    fn fmt(&self, f: &mut fmt::Formatter<'_>) -> fmt::Result {
        fmt::Debug::fmt(self, f)
    }
}

pub fn fmt_hist(h: &[Op]) -> Vec<String> {
    h.iter().map(|o| format!("{o:?}")).collect()
}
