//! Crash capture: if an execution dies from a signal (memory corruption caused by a defect in the
//! subject), the history being executed is written to a file so that the driver can turn it into a
//! replayable violation instead of an anonymous engine death.

use std::cell::{Cell, UnsafeCell};
use std::ffi::CString;
use std::sync::OnceLock;

use crate::ops::{K, Op};

unsafe extern "C" {
    fn signal(signum: i32, handler: usize) -> usize;
    fn write(fd: i32, buf: *const u8, n: usize) -> isize;
    fn open(path: *const i8, flags: i32, mode: u32) -> i32;
    fn _exit(code: i32) -> !;
    fn pthread_self() -> usize;
    fn pthread_kill(thread: usize, sig: i32) -> i32;
}

/// Hang watchdog: an execution (one history replayed on a fresh arena) takes micro- to milliseconds. If a
/// worker is still inside the same execution after `HANG_LIMIT_SECS`, a call into the subject does not
/// return; the watchdog sends that worker SIGUSR1, whose handler writes the history it is executing
/// (like a crash) and ends the process. The driver replays the history under a timeout.
pub const HANG_LIMIT_SECS: u64 = 120;
pub const SIG_HANG: i32 = 10;
type Slot = std::sync::Arc<std::sync::atomic::AtomicU64>;
static WORKERS: std::sync::Mutex<Vec<(usize, Slot)>> = std::sync::Mutex::new(Vec::new());
static T0: OnceLock<std::time::Instant> = OnceLock::new();
thread_local! { static SLOT: std::cell::OnceCell<Slot> = const { std::cell::OnceCell::new() }; }
fn now_ms() -> u64 {
    T0.get_or_init(std::time::Instant::now).elapsed().as_millis() as u64 + 1
}
fn slot_set(v: u64) {
    let _ = SLOT.try_with(|s| {
        let slot = s.get_or_init(|| {
            let slot: Slot = Default::default();
            WORKERS.lock().unwrap().push((unsafe { pthread_self() }, slot.clone()));
            slot
        });
        slot.store(v, std::sync::atomic::Ordering::SeqCst);
    });
}
/// The current execution of this thread is over.
pub fn exec_end() {
    slot_set(0);
}
fn start_watchdog() {
    std::thread::spawn(|| {
        loop {
            std::thread::sleep(std::time::Duration::from_millis(1000));
            let now = now_ms();
            let ws = WORKERS.lock().unwrap();
            for (tid, slot) in ws.iter() {
                let st = slot.load(std::sync::atomic::Ordering::SeqCst);
                if st != 0 && now.saturating_sub(st) > HANG_LIMIT_SECS * 1000 {
                    unsafe { pthread_kill(*tid, SIG_HANG) };
                    std::thread::sleep(std::time::Duration::from_millis(5000));
                    // (the handler ends the process; if it did not, give up loudly)
                    unsafe { _exit(EXIT_CRASH) }
                }
            }
        }
    });
}

static CRASH_FILE: OnceLock<CString> = OnceLock::new();
const CAP: usize = 4096;
thread_local! {
    static CUR: UnsafeCell<[u8; CAP]> = const { UnsafeCell::new([0; CAP]) };
    static LEN: Cell<usize> = const { Cell::new(0) };
}

pub const EXIT_CRASH: i32 = 77;

extern "C" fn on_signal(sig: i32) {
    unsafe {
        if let Some(path) = CRASH_FILE.get() {
            // O_WRONLY | O_CREAT | O_TRUNC
            let fd = open(path.as_ptr(), 0o1 | 0o100 | 0o1000, 0o644);
            if fd >= 0 {
                let _ = CUR.try_with(|c| {
                    let n = LEN.try_with(|l| l.get()).unwrap_or(0).min(CAP);
                    let hdr = [sig as u8];
                    write(fd, hdr.as_ptr(), 1);
                    write(fd, (*c.get()).as_ptr(), n);
                });
            }
        }
        _exit(EXIT_CRASH)
    }
}

pub fn install(path: &str) {
    let _ = CRASH_FILE.set(CString::new(path).unwrap());
    for sig in [11, 7, 4, 6, 8, SIG_HANG] {
        unsafe { signal(sig, on_signal as usize) };
    }
    start_watchdog();
}

/// Record what this thread is about to execute (scope, history, optional probe index).
pub fn note(scope: &str, hist: &[Op], probe: Option<usize>) {
    slot_set(now_ms());
    let _ = CUR.try_with(|c| {
        let buf = unsafe { &mut *c.get() };
        let mut n = 0;
        let sb = scope.as_bytes();
        let sl = sb.len().min(32);
        buf[n] = sl as u8;
        n += 1;
        buf[n..n + sl].copy_from_slice(&sb[..sl]);
        n += sl;
        buf[n] = probe.map(|p| p as u8 + 1).unwrap_or(0);
        n += 1;
        for op in hist {
            if n + 6 > CAP {
                break;
            }
            buf[n..n + 6].copy_from_slice(&[op.k as u8, op.a, op.b, op.c, op.d, op.w]);
            n += 6;
        }
        LEN.with(|l| l.set(n));
    });
}

/// Decode a crash file: (signal, scope, history, probe).
pub fn decode(bytes: &[u8]) -> Option<(u8, String, Vec<Op>, Option<usize>)> {
    let sig = *bytes.first()?;
    let sl = *bytes.get(1)? as usize;
    let scope = String::from_utf8(bytes.get(2..2 + sl)?.to_vec()).ok()?;
    let mut n = 2 + sl;
    let probe = match *bytes.get(n)? {
        0 => None,
        p => Some(p as usize - 1),
    };
    n += 1;
    let mut ops = vec![];
    while n + 6 <= bytes.len() {
        let k = *K::ALL.iter().find(|k| **k as u8 == bytes[n])?;
        ops.push(Op { k, a: bytes[n + 1], b: bytes[n + 2], c: bytes[n + 3], d: bytes[n + 4], w: bytes[n + 5] });
        n += 6;
    }
    Some((sig, scope, ops, probe))
}
