//! Tracking global allocator.
//!
//! Active per thread only inside an execution *window*. Inside a window every allocation is
//! recorded, every release is checked (known block, not already released, identical layout) and the
//! released block is **quarantined**: it is not handed back to the system until the window ends, so
//! addresses are never reused within one execution and a stale read is a read of intact, still
//! mapped memory (a detectable event, not undefined behaviour).
//!
//! Soundness of the *checks* (no false alarms): a release of a block that was not allocated inside
//! the window is passed through silently; only blocks allocated inside the window can raise
//! "double free" or "layout mismatch", and safe harness code can cause neither.

use std::alloc::{GlobalAlloc, Layout, System};
use std::cell::{Cell, UnsafeCell};

pub struct Tracking;

#[derive(Clone, Copy, Debug)]
pub struct Block {
    pub addr: usize,
    pub size: usize,
    pub align: usize,
    pub freed: bool,
    /// Harness id of the Gc object living in this block, if registered.
    pub gc_id: u32,
    /// Block was allocated inside a `gc_scope` (an allocation made by gc-arena itself).
    pub subject: bool,
}

pub const NO_ID: u32 = u32::MAX;

struct State {
    blocks: Vec<Block>,
    errors: Vec<String>,
    /// ids of registered Gc blocks in release order
    gc_frees: Vec<u32>,
    redzone_errors: u32,
}

thread_local! {
    static ON: Cell<bool> = const { Cell::new(false) };
    static BYPASS: Cell<u32> = const { Cell::new(0) };
    static SUBJECT: Cell<u32> = const { Cell::new(0) };
    static STATE: UnsafeCell<State> = const { UnsafeCell::new(State { blocks: Vec::new(), errors: Vec::new(), gc_frees: Vec::new(), redzone_errors: 0 }) };
}

#[inline]
fn tracking() -> bool {
    ON.try_with(|o| o.get()).unwrap_or(false) && BYPASS.try_with(|b| b.get() == 0).unwrap_or(false)
}

/// Run `f` with tracking suspended (for harness-internal logs that outlive or straddle windows).
pub fn bypass<R>(f: impl FnOnce() -> R) -> R {
    struct G;
    impl Drop for G {
        fn drop(&mut self) {
            let _ = BYPASS.try_with(|b| b.set(b.get() - 1));
        }
    }
    BYPASS.with(|b| b.set(b.get() + 1));
    let _g = G;
    f()
}

/// Mark allocations made inside `f` as made by the subject (gc-arena).
pub fn subject<R>(f: impl FnOnce() -> R) -> R {
    struct G;
    impl Drop for G {
        fn drop(&mut self) {
            let _ = SUBJECT.try_with(|b| b.set(b.get() - 1));
        }
    }
    SUBJECT.with(|b| b.set(b.get() + 1));
    let _g = G;
    f()
}

fn with_state<R>(f: impl FnOnce(&mut State) -> R) -> R {
    bypass(|| STATE.with(|s| f(unsafe { &mut *s.get() })))
}

unsafe impl GlobalAlloc for Tracking {
    unsafe fn alloc(&self, layout: Layout) -> *mut u8 {
        let p = unsafe { System.alloc(layout) };
        if !p.is_null() && tracking() {
            let subject = SUBJECT.try_with(|s| s.get() > 0).unwrap_or(false);
            with_state(|st| {
                st.blocks.push(Block { addr: p as usize, size: layout.size(), align: layout.align(), freed: false, gc_id: NO_ID, subject })
            });
        }
        p
    }

    unsafe fn dealloc(&self, p: *mut u8, layout: Layout) {
        if tracking() {
            let handled = with_state(|st| {
                let addr = p as usize;
                // newest first: most releases are of recent blocks
                if let Some(i) = st.blocks.iter().rposition(|b| b.addr == addr) {
                    let b = &mut st.blocks[i];
                    if b.freed {
                        st.errors.push(format!("double free of block {:#x} (size {}, gc id {})", addr, b.size, b.gc_id as i64));
                        return true;
                    }
                    if b.size != layout.size() || b.align != layout.align() {
                        st.errors.push(format!(
                            "block {:#x} allocated with layout (size {}, align {}) released with (size {}, align {})",
                            addr, b.size, b.align, layout.size(), layout.align()
                        ));
                    }
                    b.freed = true;
                    if b.gc_id != NO_ID {
                        let id = b.gc_id;
                        st.gc_frees.push(id);
                    }
                    true // quarantined
                } else {
                    false
                }
            });
            if handled {
                return;
            }
        }
        unsafe { System.dealloc(p, layout) }
    }

    unsafe fn realloc(&self, p: *mut u8, layout: Layout, new_size: usize) -> *mut u8 {
        if tracking() {
            let new_layout = unsafe { Layout::from_size_align_unchecked(new_size, layout.align()) };
            let np = unsafe { self.alloc(new_layout) };
            if !np.is_null() {
                unsafe {
                    std::ptr::copy_nonoverlapping(p, np, layout.size().min(new_size));
                    self.dealloc(p, layout);
                }
            }
            np
        } else {
            unsafe { System.realloc(p, layout, new_size) }
        }
    }
}

/// Result of closing a window.
#[derive(Debug, Default)]
pub struct WindowReport {
    /// Blocks allocated in the window and never released.
    pub leaked: Vec<Block>,
    pub errors: Vec<String>,
    pub allocs: usize,
}

pub fn begin_window() {
    assert!(!ON.with(|o| o.get()), "nested allocator window");
    with_state(|st| {
        st.blocks.clear();
        st.errors.clear();
        st.gc_frees.clear();
    });
    ON.with(|o| o.set(true));
}

pub fn end_window() -> WindowReport {
    ON.with(|o| o.set(false));
    with_state(|st| {
        let mut rep = WindowReport { allocs: st.blocks.len(), ..Default::default() };
        for b in st.blocks.drain(..) {
            if b.freed {
                unsafe { System.dealloc(b.addr as *mut u8, Layout::from_size_align_unchecked(b.size, b.align)) }
            } else {
                rep.leaked.push(b);
            }
        }
        rep.errors = std::mem::take(&mut st.errors);
        st.gc_frees.clear();
        rep
    })
}

/// Really release every quarantined block now and forget it (used when a whole arena has died
/// and the harness will never look at its memory again): later allocations may reuse the addresses.
pub fn flush_freed() {
    with_state(|st| {
        st.blocks.retain(|b| {
            if b.freed {
                unsafe { System.dealloc(b.addr as *mut u8, Layout::from_size_align_unchecked(b.size, b.align)) };
                false
            } else {
                true
            }
        });
    })
}

pub fn window_open() -> bool {
    ON.with(|o| o.get())
}

/// Register the Gc object `id` whose value lives at `value_addr`. The block is the tracked, not yet
/// released block containing the byte just before the value (the header always precedes the value;
/// a zero-sized value sits one past the end of its block). Returns the block, or None if no tracked
/// block contains it.
pub fn register_gc(value_addr: usize, id: u32) -> Option<Block> {
    with_state(|st| {
        let probe = value_addr.wrapping_sub(1);
        let i = st.blocks.iter().rposition(|b| !b.freed && b.addr <= probe && probe < b.addr + b.size)?;
        st.blocks[i].gc_id = id;
        Some(st.blocks[i])
    })
}

/// The block registered for `id` (released or not).
pub fn gc_block(id: u32) -> Option<Block> {
    with_state(|st| st.blocks.iter().rev().find(|b| b.gc_id == id).copied())
}

/// Number of registered Gc blocks not yet released.
pub fn gc_live_count() -> usize {
    with_state(|st| st.blocks.iter().filter(|b| b.gc_id != NO_ID && !b.freed).count())
}

/// Number of registered Gc blocks with id in [lo, hi) not yet released.
pub fn gc_live_count_range(lo: u32, hi: u32) -> usize {
    with_state(|st| st.blocks.iter().filter(|b| b.gc_id != NO_ID && b.gc_id >= lo && b.gc_id < hi && !b.freed).count())
}

/// Ids of registered Gc blocks released so far (in order).
pub fn gc_frees_len() -> usize {
    with_state(|st| st.gc_frees.len())
}

pub fn gc_frees() -> Vec<u32> {
    with_state(|st| st.gc_frees.clone())
}

pub fn errors_len() -> usize {
    with_state(|st| st.errors.len())
}

/// Called by payload destructors: a destructor must never run on a value whose block was already released.
pub fn note_destructed_at(addr: usize, what: &str) {
    bypass(|| {
        with_state(|st| {
            if let Some(b) = st.blocks.iter().rev().find(|b| b.addr <= addr && addr < b.addr + b.size.max(1)) {
                if b.freed {
                    st.errors.push(format!("destructor of {what} ran on a value at {addr:#x} inside a block that was already released ({:#x}, size {})", b.addr, b.size));
                }
            }
        })
    })
}
pub fn take_errors() -> Vec<String> {
    with_state(|st| std::mem::take(&mut st.errors))
}

/// Blocks allocated in the window and still outstanding.
pub fn outstanding() -> Vec<Block> {
    with_state(|st| st.blocks.iter().filter(|b| !b.freed).copied().collect())
}

pub fn outstanding_count() -> usize {
    with_state(|st| st.blocks.iter().filter(|b| !b.freed).count())
}

/// All blocks of the window (for layout checks).
pub fn blocks() -> Vec<Block> {
    with_state(|st| st.blocks.clone())
}

/// Is the tracked block containing `addr` still allocated? None if no tracked block contains it.
pub fn addr_allocated(addr: usize) -> Option<bool> {
    with_state(|st| st.blocks.iter().rev().find(|b| b.addr <= addr && addr < b.addr + b.size.max(1)).map(|b| !b.freed))
}
