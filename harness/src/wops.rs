//! Execution of one operation on the real arena and on the shadow.

use std::panic::{AssertUnwindSafe, catch_unwind};

use gc_arena::{
    DynamicRootSet, Finalization, Gc, GcWeak, Lock, Mutation, RefLock, Rootable,
    arena::CollectionPhase,
    barrier::{field, unlock},
    lock::OnceLock,
    metrics::Pacing,
};

use crate::{
    VResult, Viol,
    ops::{K, Op},
    talloc, viol,
    world::*,
};

pub const NOFIRE: &str = "harness.nofire";

pub const ADJUSTS: [f64; 4] = [0.5, 3.0, -1.0, -1.0e6];
pub fn pacing_table(i: u8) -> Pacing {
    match i {
        0 => Pacing { min_sleep: 0, ..Pacing::DEFAULT },
        1 => Pacing { min_sleep: 2, ..Pacing::DEFAULT },
        2 => Pacing { min_sleep: 1, sleep_factor: 1.0, ..Pacing::STOP_THE_WORLD },
        // an infinite sleep factor: 0 survivors x infinity is NaN, which must never reach allocation_debt()
        _ => Pacing { min_sleep: 3, sleep_factor: f64::INFINITY, ..Pacing::DEFAULT },
    }
}

pub fn panic_msg(p: &Box<dyn std::any::Any + Send>) -> String {
    if let Some(s) = p.downcast_ref::<&str>() {
        s.to_string()
    } else if let Some(s) = p.downcast_ref::<String>() {
        s.clone()
    } else {
        "<non-string panic payload>".to_string()
    }
}

/// Outcome of a guarded subject call.
pub enum Caught<T> {
    Done(T),
    Injected,
}

pub fn guarded<T>(what: &str, f: impl FnOnce() -> T) -> VResult<Caught<T>> {
    match catch_unwind(AssertUnwindSafe(f)) {
        Ok(t) => Ok(Caught::Done(t)),
        Err(p) => {
            if p.is::<InjectedPanic>() {
                Ok(Caught::Injected)
            } else {
                Err(Viol::new("api.panic", format!("{what} panicked: {}", panic_msg(&p))))
            }
        }
    }
}

fn new_node<'gc>(mc: &Mutation<'gc>, gid: u32) -> NodeGc<'gc> {
    let g = talloc::subject(|| {
        Gc::new(
            mc,
            Node {
                id: gid,
                pat: pattern(gid),
                _tok: Tok(gid),
                s: [Lock::new(None), Lock::new(None)],
                w: Lock::new(None),
                dw: Box::new(WSlot(Lock::new(None))),
                leaf: Lock::new(None),
                wl: Lock::new(None),
                cell: Lock::new(None),
                held: Default::default(),
            },
        )
    });
    talloc::register_gc(Gc::as_ptr(g) as usize, gid);
    g
}

/// Store into the node's weak slot after the sanctioned write barrier on the node.
fn set_weak<'gc>(mc: &Mutation<'gc>, p: NodeGc<'gc>, v: Option<GcWeak<'gc, Node<'gc>>>) {
    if DYNWEAK.with(|d| d.get()) {
        // (no safe projection through a trait method: barrier first, then the raw cell)
        let _ = Gc::write(mc, p);
        unsafe { p.dw.cell().as_cell().set(v) };
    } else {
        unlock!(Gc::write(mc, p), Node, w).set(v);
    }
}

fn link<'gc>(mc: &Mutation<'gc>, p: NodeGc<'gc>, s: u8, c: Option<NodeGc<'gc>>) {
    field!(Gc::write(mc, p), Node, s)[s as usize].unlock().set(c);
}

fn adopt<'gc>(mc: &Mutation<'gc>, path: u8, p: NodeGc<'gc>, sl: u8, c: NodeGc<'gc>) {
    match path {
        1 => mc.backward_barrier(Gc::erase(p), Some(Gc::erase(c))),
        2 => mc.backward_barrier(Gc::erase(p), None),
        3 => mc.forward_barrier(Some(Gc::erase(p)), Gc::erase(c)),
        4 => mc.forward_barrier(None, Gc::erase(c)),
        _ => unreachable!(),
    }
    unsafe { p.s[sl as usize].as_cell().set(Some(c)) };
}

fn adopt_weak<'gc>(mc: &Mutation<'gc>, path: u8, p: NodeGc<'gc>, w: GcWeak<'gc, Node<'gc>>) {
    match path {
        5 => mc.backward_barrier_weak(Gc::erase(p), GcWeak::erase(w)),
        6 => mc.forward_barrier_weak(Some(Gc::erase(p)), GcWeak::erase(w)),
        7 => mc.forward_barrier_weak(None, GcWeak::erase(w)),
        _ => unreachable!(),
    }
    unsafe { p.wcell().as_cell().set(Some(w)) };
}

fn barrier_only<'gc>(mc: &Mutation<'gc>, path: u8, p: NodeGc<'gc>, c: NodeGc<'gc>) {
    match path {
        1 => mc.backward_barrier(Gc::erase(p), Some(Gc::erase(c))),
        2 => mc.backward_barrier(Gc::erase(p), None),
        3 => mc.forward_barrier(Some(Gc::erase(p)), Gc::erase(c)),
        4 => mc.forward_barrier(None, Gc::erase(c)),
        5 => mc.backward_barrier_weak(Gc::erase(p), GcWeak::erase(Gc::downgrade(c))),
        6 => mc.forward_barrier_weak(Some(Gc::erase(p)), GcWeak::erase(Gc::downgrade(c))),
        7 => mc.forward_barrier_weak(None, GcWeak::erase(Gc::downgrade(c))),
        _ => unreachable!(),
    }
}

fn credit_path(path: u8) -> bool {
    matches!(path, 3 | 4 | 6 | 7)
}

type Objs<'a, 'gc> = &'a [Option<Obj<'gc>>];

impl World {
    fn node<'gc>(&self, m: Objs<'_, 'gc>, id: u8) -> NodeGc<'gc> {
        m[id as usize].expect("harness: operation names an unlocated object").node()
    }

    fn c03_exit(&self, what: &str, d0: usize, f0: usize) -> VResult {
        if arena_drops_since(d0) != 0 {
            viol!("c03.destructed_in_callback", "{} value(s) destructed while a {what} callback was running", arena_drops_since(d0));
        }
        if talloc::gc_frees_len() != f0 {
            viol!("c03.released_in_callback", "{} allocation(s) released while a {what} callback was running", talloc::gc_frees_len() - f0);
        }
        Ok(())
    }

    /// `Arena::mutate` with lock-step location of all reachable objects.
    pub fn with_mutate<T>(
        &mut self,
        f: impl for<'gc> FnOnce(&World, &'gc Mutation<'gc>, &'gc Root<'gc>, Objs<'_, 'gc>) -> VResult<T>,
    ) -> VResult<Caught<T>> {
        let arena = self.arena.take().expect("arena");
        let (d0, f0) = (drops_len(), talloc::gc_frees_len());
        let this: &World = self;
        let r = guarded("Arena::mutate", || {
            arena.mutate(|mc, root| {
                let m = this.locate(root)?;
                f(this, mc, root, &m)
            })
        });
        let c3 = self.c03_exit("mutate", d0, f0);
        self.arena = Some(arena);
        let r = r?;
        c3?;
        match r {
            Caught::Done(x) => Ok(Caught::Done(x?)),
            Caught::Injected => Ok(Caught::Injected),
        }
    }

    /// Root-changing callback through `mutate_root` (via 0), `map_root` (1) or `try_map_root` (2).
    pub fn with_root<T>(
        &mut self,
        via: u8,
        f: impl for<'gc> FnOnce(&World, &'gc Mutation<'gc>, &mut Root<'gc>, Objs<'_, 'gc>) -> VResult<T>,
    ) -> VResult<Caught<T>> {
        let mut arena = self.arena.take().expect("arena");
        let (d0, f0) = (drops_len(), talloc::gc_frees_len());
        let this: &World = self;
        let mut out: Option<VResult<T>> = None;
        let mut lost = false;
        let r = match via {
            0 => {
                let r = guarded("Arena::mutate_root", || {
                    arena.mutate_root(|mc, root| {
                        let m = match this.locate(root) {
                            Ok(m) => m,
                            Err(e) => {
                                out = Some(Err(e));
                                return;
                            }
                        };
                        out = Some(f(this, mc, root, &m));
                    })
                });
                let c3 = self.c03_exit("mutate_root", d0, f0);
                self.arena = Some(arena);
                c3?;
                r
            }
            _ => {
                let mut slot = None;
                let r = guarded(if via == 1 { "Arena::map_root" } else { "Arena::try_map_root" }, || {
                    let body = |mc: &Mutation<'_>, root: &mut Root<'_>| match this.locate(root) {
                        Ok(m) => Some(f(this, unsafe { std::mem::transmute(mc) }, unsafe { std::mem::transmute(root) }, unsafe { std::mem::transmute(&m[..]) })),
                        Err(e) => Some(Err(e)),
                    };
                    // (the transmutes above only erase the brand for the helper closure; `f` is
                    // higher-ranked over 'gc and cannot observe it)
                    if via == 1 {
                        slot = Some(arena.map_root::<RootT>(|mc, mut root| {
                            out = body(mc, &mut root);
                            root
                        }));
                    } else {
                        match arena.try_map_root::<RootT, ()>(|mc, mut root| {
                            out = body(mc, &mut root);
                            Ok(root)
                        }) {
                            Ok(a) => slot = Some(a),
                            Err(()) => {}
                        }
                    }
                });
                match slot {
                    Some(a) => self.arena = Some(a),
                    None => lost = true,
                }
                let c3 = self.c03_exit("map_root", d0, f0);
                if !lost {
                    c3?;
                }
                r
            }
        };
        match r? {
            Caught::Done(()) => {
                if lost {
                    viol!("api.panic", "map_root lost the arena without a panic");
                }
                Ok(Caught::Done(out.expect("callback ran")?))
            }
            Caught::Injected => Ok(Caught::Injected),
        }
    }

    /// Set the allocation debt to the class value before a debt-driven call.
    pub fn norm(&self, class: u8) -> VResult {
        if self.sc.natural {
            return Ok(());
        }
        let m = &self.metrics;
        if m.total_gc_count() == 0 {
            return Ok(());
        }
        m.adjust_debt(1.0e6);
        let d = m.allocation_debt();
        if d > 0.0 {
            match class {
                0 => m.adjust_debt(EPS - d),
                1 => m.adjust_debt(-d - 1.0),
                _ => m.adjust_debt(HUGE - d),
            }
            let want = match class {
                0 => EPS,
                1 => 0.0,
                _ => HUGE,
            };
            let got = m.allocation_debt();
            if (got - want).abs() > 1e-6 * (1.0 + want) {
                viol!("c10.adjust_exact", "a positive debt of {d} adjusted by {} reads {got} instead of {want}", want - d);
            }
        } else {
            // (these scopes never set a pacing with an unbounded sleep allowance, and every adjustment the harness
            // made so far left the debt at EPS, zero or HUGE: an explicit adjustment of 1e6 cannot vanish)
            viol!("c10.adjust_ineffective", "adjust_debt(1e6) on an arena holding {} allocations left allocation_debt() at {d}", m.total_gc_count());
        }
        Ok(())
    }

    pub fn apply_inner(&mut self, op: Op, ret_some: &mut Option<bool>) -> VResult {
        let base = self.base;
        match op.k {
            // ------------------------------------------------------------------ roots
            K::NewRoot => {
                let id = self.alloc_id(KNODE);
                let r = self.with_root(op.b, |_, mc, root, _| {
                    let g = new_node(mc, base + id as u32);
                    root.r[op.a as usize] = Some(g);
                    Ok(Gc::as_ptr(g) as usize)
                })?;
                if let Caught::Done(a) = r {
                    self.addrs.push((a, id));
                }
                self.sh.roots[op.a as usize] = Some(id);
            }
            K::ClearRoot => {
                self.with_root(op.b, |_, _, root, _| {
                    root.r[op.a as usize] = None;
                    Ok(())
                })?;
                self.sh.roots[op.a as usize] = None;
            }
            K::CopyRoot => {
                self.with_root(op.c, |w, _, root, m| {
                    root.r[op.a as usize] = Some(w.node(m, op.b));
                    Ok(())
                })?;
                self.sh.roots[op.a as usize] = Some(op.b);
            }
            // ------------------------------------------------------------------ graph
            K::NewChild => {
                let id = self.alloc_id(KNODE);
                let r = self.with_mutate(|w, mc, _, m| {
                    let g = new_node(mc, base + id as u32);
                    link(mc, w.node(m, op.a), op.b, Some(g));
                    Ok(Gc::as_ptr(g) as usize)
                })?;
                if let Caught::Done(a) = r {
                    self.addrs.push((a, id));
                }
                self.sh.objs[op.a as usize].s[op.b as usize] = Some(id);
            }
            K::NewChildHolding | K::NewRootHolding => {
                let id = self.alloc_id(KNODE);
                let held = if op.k == K::NewChildHolding { op.c } else { op.b };
                let r = if op.k == K::NewChildHolding {
                    self.with_mutate(|w, mc, _, m| {
                        let g = new_node(mc, base + id as u32);
                        // initialise the fresh (not yet shared) object without a barrier, as a constructor would
                        unsafe { g.s[0].as_cell().set(Some(w.node(m, held))) };
                        link(mc, w.node(m, op.a), op.b, Some(g));
                        Ok(Gc::as_ptr(g) as usize)
                    })?
                } else {
                    self.with_root(0, |w, mc, root, m| {
                        let g = new_node(mc, base + id as u32);
                        unsafe { g.s[0].as_cell().set(Some(w.node(m, held))) };
                        root.r[op.a as usize] = Some(g);
                        Ok(Gc::as_ptr(g) as usize)
                    })?
                };
                if let Caught::Done(a) = r {
                    self.addrs.push((a, id));
                }
                self.sh.objs[id as usize].s[0] = Some(held);
                if op.k == K::NewChildHolding {
                    self.sh.objs[op.a as usize].s[op.b as usize] = Some(id);
                } else {
                    self.sh.roots[op.a as usize] = Some(id);
                }
            }
            K::Link => {
                self.with_mutate(|w, mc, _, m| {
                    link(mc, w.node(m, op.a), op.b, Some(w.node(m, op.c)));
                    Ok(())
                })?;
                self.sh.objs[op.a as usize].s[op.b as usize] = Some(op.c);
            }
            K::Unlink => {
                self.with_mutate(|w, mc, _, m| {
                    link(mc, w.node(m, op.a), op.b, None);
                    Ok(())
                })?;
                self.sh.objs[op.a as usize].s[op.b as usize] = None;
            }
            K::SetWeak => {
                self.with_mutate(|w, mc, _, m| {
                    set_weak(mc, w.node(m, op.a), Some(Gc::downgrade(w.node(m, op.b))));
                    Ok(())
                })?;
                self.sh.objs[op.a as usize].w = Some(op.b);
            }
            K::ClearWeak => {
                self.with_mutate(|w, mc, _, m| {
                    set_weak(mc, w.node(m, op.a), None);
                    Ok(())
                })?;
                self.sh.objs[op.a as usize].w = None;
            }
            K::UpOnly => {
                let t = self.sh.objs[op.a as usize].w.expect("weak");
                let sweeping = self.phase() == CollectionPhase::Sweeping;
                let tdropped = self.sh.objs[t as usize].dropped;
                let treach = self.sh.reach_mask()[t as usize];
                let r = self.with_mutate(|w, mc, _, m| match w.node(m, op.a).wk().unwrap().upgrade(mc) {
                    Some(g) => Ok(Some(g.id)),
                    None => Ok(None),
                })?;
                let Caught::Done(r) = r else { viol!("api.panic", "unexpected injected panic") };
                match r {
                    Some(id) => {
                        if tdropped {
                            viol!("c05.upgrade_dropped", "upgrade returned a pointer to destructed object {t}");
                        }
                        if id != base + t as u32 {
                            viol!("c05.upgrade_identity", "upgrade of weak to {t} reads id {id}");
                        }
                    }
                    None => {
                        if treach {
                            viol!("c05.upgrade_reachable_failed", "upgrade failed for strongly reachable object {t}");
                        }
                        if !tdropped && !sweeping {
                            viol!("c05.upgrade_spurious", "upgrade failed for undestructed object {t} outside Sweeping");
                        }
                    }
                }
            }
            K::UpStore | K::UpRoot | K::CellSetUp => {
                let t = self.sh.objs[op.a as usize].w.expect("weak");
                let sweeping = self.phase() == CollectionPhase::Sweeping;
                let tdropped = self.sh.objs[t as usize].dropped;
                let treach = self.sh.reach_mask()[t as usize];
                let mut cell_ok = true;
                let ok = match op.k {
                    K::UpStore => self.with_mutate(|w, mc, _, m| match w.node(m, op.a).wk().unwrap().upgrade(mc) {
                        Some(g) => {
                            link(mc, w.node(m, op.b), op.c, Some(g));
                            Ok(true)
                        }
                        None => Ok(false),
                    })?,
                    K::UpRoot => self.with_root(0, |w, mc, root, m| match w.node(m, op.a).wk().unwrap().upgrade(mc) {
                        Some(g) => {
                            root.r[op.b as usize] = Some(g);
                            Ok(true)
                        }
                        None => Ok(false),
                    })?,
                    _ => {
                        let cid = self.sh.objs[op.b as usize].cell.expect("cell");
                        let r = self.with_mutate(|w, mc, _, m| match w.node(m, op.a).wk().unwrap().upgrade(mc) {
                            Some(g) => Ok(Some(cell_set(mc, m[cid as usize].unwrap().cell(), Some(g)))),
                            None => Ok(None),
                        })?;
                        match r {
                            Caught::Done(Some(stored)) => {
                                cell_ok = stored;
                                Caught::Done(true)
                            }
                            Caught::Done(None) => Caught::Done(false),
                            Caught::Injected => Caught::Injected,
                        }
                    }
                };
                let Caught::Done(ok) = ok else { viol!("api.panic", "unexpected injected panic") };
                if ok {
                    self.cov.bump(if sweeping { "upgrade_store@Sweeping" } else { "upgrade_store" });
                    if tdropped {
                        viol!("c05.upgrade_dropped", "upgrade returned a pointer to destructed object {t}");
                    }
                    match op.k {
                        K::UpStore => self.sh.objs[op.b as usize].s[op.c as usize] = Some(t),
                        K::UpRoot => self.sh.roots[op.b as usize] = Some(t),
                        _ => {
                            let cid = self.sh.objs[op.b as usize].cell.unwrap();
                            let o = &mut self.sh.objs[cid as usize];
                            let expect_stored = !(o.kind == KCELL_O && o.s[0].is_some());
                            if cell_ok != expect_stored {
                                viol!("c06.oncelock_set", "Gc<OnceLock>::set returned {} but the cell was {}", if cell_ok { "Ok" } else { "Err" }, if expect_stored { "empty" } else { "full" });
                            }
                            if cell_ok {
                                o.s[0] = Some(t);
                            }
                        }
                    }
                } else {
                    if treach {
                        viol!("c05.upgrade_reachable_failed", "upgrade failed for strongly reachable object {t}");
                    }
                    if !tdropped && !sweeping {
                        viol!("c05.upgrade_spurious", "upgrade failed for undestructed object {t} outside Sweeping");
                    }
                }
            }
            K::Garbage => {
                let id = self.alloc_id(KNODE);
                let r = self.with_mutate(|_, mc, _, _| Ok(Gc::as_ptr(new_node(mc, base + id as u32)) as usize))?;
                if let Caught::Done(a) = r {
                    self.addrs.push((a, id));
                }
            }
            // ------------------------------------------------------------------ barrier paths
            K::AdoptNew => {
                let id = self.alloc_id(KNODE);
                if credit_path(op.a) {
                    self.credit_calls += 1;
                }
                let r = self.with_mutate(|w, mc, _, m| {
                    let g = new_node(mc, base + id as u32);
                    adopt(mc, op.a, w.node(m, op.b), op.c, g);
                    Ok(Gc::as_ptr(g) as usize)
                })?;
                if let Caught::Done(a) = r {
                    self.addrs.push((a, id));
                }
                self.sh.objs[op.b as usize].s[op.c as usize] = Some(id);
            }
            K::Adopt => {
                if credit_path(op.a) {
                    self.credit_calls += 1;
                }
                self.with_mutate(|w, mc, _, m| {
                    adopt(mc, op.a, w.node(m, op.b), op.c, w.node(m, op.d));
                    Ok(())
                })?;
                self.sh.objs[op.b as usize].s[op.c as usize] = Some(op.d);
            }
            K::AdoptUp => {
                let t = self.sh.objs[op.b as usize].w.expect("weak");
                if credit_path(op.a) {
                    self.credit_calls += 1;
                }
                let ok = self.with_mutate(|w, mc, _, m| match w.node(m, op.b).wk().unwrap().upgrade(mc) {
                    Some(g) => {
                        adopt(mc, op.a, w.node(m, op.c), op.d, g);
                        Ok(true)
                    }
                    None => Ok(false),
                })?;
                if let Caught::Done(true) = ok {
                    self.cov.bump("adopt_after_upgrade");
                    if self.sh.objs[t as usize].dropped {
                        viol!("c05.upgrade_dropped", "upgrade returned a pointer to destructed object {t}");
                    }
                    self.sh.objs[op.c as usize].s[op.d as usize] = Some(t);
                }
            }
            K::AdoptWeak => {
                if credit_path(op.a) {
                    self.credit_calls += 1;
                }
                self.with_mutate(|w, mc, _, m| {
                    adopt_weak(mc, op.a, w.node(m, op.b), Gc::downgrade(w.node(m, op.c)));
                    Ok(())
                })?;
                self.sh.objs[op.b as usize].w = Some(op.c);
            }
            K::AdoptWeakFrom => {
                if credit_path(op.a) {
                    self.credit_calls += 1;
                }
                let t = self.sh.objs[op.c as usize].w.expect("weak");
                self.with_mutate(|w, mc, _, m| {
                    let wk = w.node(m, op.c).wk().expect("weak pointer");
                    adopt_weak(mc, op.a, w.node(m, op.b), wk);
                    Ok(())
                })?;
                self.sh.objs[op.b as usize].w = Some(t);
                self.cov.bump(if self.sh.objs[t as usize].dropped { "adopt_weak_of_destructed_target" } else { "adopt_weak_of_unreachable_target" });
            }
            K::AdoptWeakNew => {
                let id = self.alloc_id(KNODE);
                if credit_path(op.a) {
                    self.credit_calls += 1;
                }
                let r = self.with_mutate(|w, mc, _, m| {
                    let g = new_node(mc, base + id as u32);
                    adopt_weak(mc, op.a, w.node(m, op.b), Gc::downgrade(g));
                    Ok(Gc::as_ptr(g) as usize)
                })?;
                if let Caught::Done(a) = r {
                    self.addrs.push((a, id));
                }
                self.sh.objs[op.b as usize].w = Some(id);
            }
            K::BarrierOnly => {
                if credit_path(op.a) {
                    self.credit_calls += 1;
                }
                self.with_mutate(|w, mc, _, m| {
                    barrier_only(mc, op.a, w.node(m, op.b), w.node(m, op.c));
                    Ok(())
                })?;
            }
            K::Adopt2 => {
                self.with_mutate(|w, mc, _, m| {
                    let p = w.node(m, op.a);
                    mc.backward_barrier(Gc::erase(p), None);
                    unsafe {
                        p.s[0].as_cell().set(Some(w.node(m, op.b)));
                        p.s[1].as_cell().set(Some(w.node(m, op.c)));
                    }
                    Ok(())
                })?;
                self.sh.objs[op.a as usize].s = [Some(op.b), Some(op.c)];
            }
            K::AdoptBy2 => {
                self.credit_calls += 1;
                self.with_mutate(|w, mc, _, m| {
                    let c = w.node(m, op.a);
                    mc.forward_barrier(None, Gc::erase(c));
                    unsafe {
                        w.node(m, op.b).s[0].as_cell().set(Some(c));
                        w.node(m, op.c).s[0].as_cell().set(Some(c));
                    }
                    Ok(())
                })?;
                self.sh.objs[op.b as usize].s[0] = Some(op.a);
                self.sh.objs[op.c as usize].s[0] = Some(op.a);
            }
            K::NewCell => {
                let id = self.alloc_id(KCELL_L + op.b);
                let r = self.with_mutate(|w, mc, _, m| {
                    let c = talloc::subject(|| match op.b {
                        0 => CellRef::L(Gc::new(mc, Lock::new(None))),
                        1 => CellRef::R(Gc::new(mc, RefLock::new(None))),
                        2 => CellRef::O(Gc::new(mc, OnceLock::new())),
                        3 => CellRef::W(Gc::new(mc, Lock::new(None))),
                        _ => CellRef::WR(Gc::new(mc, RefLock::new(None))),
                    });
                    talloc::register_gc(c.addr(), base + id as u32);
                    unlock!(Gc::write(mc, w.node(m, op.a)), Node, cell).set(Some(c));
                    Ok(c.addr())
                })?;
                if let Caught::Done(a) = r {
                    self.addrs.push((a, id));
                }
                self.sh.objs[op.a as usize].cell = Some(id);
            }
            K::DropCell => {
                self.with_mutate(|w, mc, _, m| {
                    unlock!(Gc::write(mc, w.node(m, op.a)), Node, cell).set(None);
                    Ok(())
                })?;
                self.sh.objs[op.a as usize].cell = None;
            }
            K::CellSetWeak | K::CellSetWeakNew => {
                let cid = self.sh.objs[op.a as usize].cell.expect("cell");
                let newid = if op.k == K::CellSetWeakNew { Some(self.alloc_id(KNODE)) } else { None };
                let r = self.with_mutate(|w, mc, _, m| {
                    let c = m[cid as usize].unwrap().cell();
                    let (g, addr) = match newid {
                        Some(nid) => {
                            let g = new_node(mc, base + nid as u32);
                            (g, Gc::as_ptr(g) as usize)
                        }
                        None => (w.node(m, op.b), 0),
                    };
                    match c {
                        CellRef::W(l) => l.set(mc, Some(Gc::downgrade(g))),
                        CellRef::WR(l) => *l.borrow_mut(mc) = Some(Gc::downgrade(g)),
                        _ => unreachable!(),
                    }
                    Ok(addr)
                })?;
                let Caught::Done(addr) = r else { viol!("api.panic", "unexpected injected panic") };
                if let Some(nid) = newid {
                    self.addrs.push((addr, nid));
                }
                self.sh.objs[cid as usize].w = Some(newid.unwrap_or(op.b));
            }
            K::CellSet | K::CellSetNew | K::CellClear | K::CellInit | K::CellInitNew => {
                let cid = self.sh.objs[op.a as usize].cell.expect("cell");
                let newid = if matches!(op.k, K::CellSetNew | K::CellInitNew) { Some(self.alloc_id(KNODE)) } else { None };
                let r = self.with_mutate(|w, mc, _, m| {
                    let c = m[cid as usize].unwrap().cell();
                    match op.k {
                        K::CellSet => Ok((cell_set(mc, c, Some(w.node(m, op.b))), 0usize, None)),
                        K::CellSetNew => {
                            let g = new_node(mc, base + newid.unwrap() as u32);
                            Ok((cell_set(mc, c, Some(g)), Gc::as_ptr(g) as usize, None))
                        }
                        K::CellClear => Ok((cell_set(mc, c, None), 0, None)),
                        K::CellInitNew => {
                            let CellRef::O(o) = c else { unreachable!() };
                            let mut addr = 0usize;
                            let got = *o.get_or_init(mc, || {
                                let g = new_node(mc, base + newid.unwrap() as u32);
                                addr = Gc::as_ptr(g) as usize;
                                g
                            });
                            if addr == 0 {
                                viol!("c06.oncelock_init", "get_or_init on an empty cell did not run its initialiser");
                            }
                            Ok((true, addr, Some(got.id)))
                        }
                        _ => {
                            let CellRef::O(o) = c else { unreachable!() };
                            let want = w.node(m, op.b);
                            let got = *o.get_or_init(mc, || want);
                            Ok((true, 0, Some(got.id)))
                        }
                    }
                })?;
                let Caught::Done((stored, addr, got)) = r else { viol!("api.panic", "unexpected injected panic") };
                if let Some(nid) = newid {
                    self.addrs.push((addr, nid));
                }
                let o = &mut self.sh.objs[cid as usize];
                match op.k {
                    K::CellClear => {
                        o.s[0] = None;
                        o.w = None;
                    }
                    K::CellInitNew => {
                        let nid = newid.unwrap();
                        if got != Some(base + nid as u32) {
                            viol!("c06.oncelock_init", "get_or_init on an empty cell returned object {:?}, expected the fresh object {nid}", got);
                        }
                        o.s[0] = Some(nid);
                    }
                    K::CellInit => {
                        let expect = o.s[0].unwrap_or(op.b);
                        if got != Some(base + expect as u32) {
                            viol!("c06.oncelock_init", "get_or_init returned object {:?}, expected {expect}", got);
                        }
                        o.s[0] = Some(expect);
                    }
                    _ => {
                        let val = newid.unwrap_or(op.b);
                        let expect_stored = !(o.kind == KCELL_O && o.s[0].is_some());
                        if stored != expect_stored {
                            viol!("c06.oncelock_set", "Gc<OnceLock>::set returned {} on a{} cell", if stored { "Ok" } else { "Err" }, if expect_stored { "n empty" } else { " full" });
                        }
                        if stored {
                            o.s[0] = Some(val);
                        }
                    }
                }
            }
            // ------------------------------------------------------------------ leaves
            K::NewLeaf => {
                let id = self.alloc_id(KLEAF);
                let r = self.with_mutate(|w, mc, _, m| {
                    let gid = base + id as u32;
                    let g = talloc::subject(|| Gc::new(mc, RefLock::new(Leaf { id: gid, pat: pattern(gid), n: 0, _tok: Tok(gid) })));
                    let a = Gc::as_ptr(g) as *const () as usize;
                    talloc::register_gc(a, gid);
                    unlock!(Gc::write(mc, w.node(m, op.a)), Node, leaf).set(Some(g));
                    Ok(a)
                })?;
                if let Caught::Done(a) = r {
                    self.addrs.push((a, id));
                }
                self.sh.objs[op.a as usize].leaf = Some(id);
            }
            K::TouchLeaf => {
                self.with_mutate(|w, mc, _, m| {
                    w.node(m, op.a).leaf.get().unwrap().borrow_mut(mc).n += 1;
                    Ok(())
                })?;
            }
            K::DropLeaf => {
                self.with_mutate(|w, mc, _, m| {
                    unlock!(Gc::write(mc, w.node(m, op.a)), Node, leaf).set(None);
                    Ok(())
                })?;
                self.sh.objs[op.a as usize].leaf = None;
            }
            K::AdoptLeaf => {
                if credit_path(op.a) {
                    self.credit_calls += 1;
                }
                let l = self.sh.objs[op.c as usize].leaf.expect("leaf");
                self.with_mutate(|w, mc, _, m| {
                    let p = w.node(m, op.b);
                    let lg = w.node(m, op.c).leaf.get().unwrap();
                    match op.a {
                        1 => mc.backward_barrier(Gc::erase(p), Some(Gc::erase(lg))),
                        2 => mc.backward_barrier(Gc::erase(p), None),
                        3 => mc.forward_barrier(Some(Gc::erase(p)), Gc::erase(lg)),
                        _ => mc.forward_barrier(None, Gc::erase(lg)),
                    }
                    unsafe { p.leaf.as_cell().set(Some(lg)) };
                    Ok(())
                })?;
                self.sh.objs[op.b as usize].leaf = Some(l);
            }
            K::LeafBarrier => {
                if credit_path(op.a) {
                    self.credit_calls += 1;
                }
                self.with_mutate(|w, mc, _, m| {
                    let l = Gc::erase(w.node(m, op.b).leaf.get().unwrap());
                    let c = w.node(m, op.c);
                    match op.a {
                        1 => mc.backward_barrier(l, Some(Gc::erase(c))),
                        2 => mc.backward_barrier(l, None),
                        3 => mc.forward_barrier(Some(l), Gc::erase(c)),
                        5 => mc.backward_barrier_weak(l, GcWeak::erase(Gc::downgrade(c))),
                        _ => mc.forward_barrier_weak(Some(l), GcWeak::erase(Gc::downgrade(c))),
                    }
                    Ok(())
                })?;
            }
            K::SetWeakLeaf => {
                let t = self.sh.objs[op.b as usize].leaf.expect("leaf");
                self.with_mutate(|w, mc, _, m| {
                    let l = w.node(m, op.b).leaf.get().unwrap();
                    unlock!(Gc::write(mc, w.node(m, op.a)), Node, wl).set(Some(Gc::downgrade(l)));
                    Ok(())
                })?;
                self.sh.objs[op.a as usize].wl = Some(t);
            }
            K::ClearWeakLeaf => {
                self.with_mutate(|w, mc, _, m| {
                    unlock!(Gc::write(mc, w.node(m, op.a)), Node, wl).set(None);
                    Ok(())
                })?;
                self.sh.objs[op.a as usize].wl = None;
            }
            K::UpLeaf => {
                let t = self.sh.objs[op.a as usize].wl.expect("weak leaf");
                let sweeping = self.phase() == CollectionPhase::Sweeping;
                let tdropped = self.sh.objs[t as usize].dropped;
                let treach = self.sh.reach_mask()[t as usize];
                let ok = self.with_mutate(|w, mc, _, m| match w.node(m, op.a).wl.get().unwrap().upgrade(mc) {
                    Some(g) => {
                        unlock!(Gc::write(mc, w.node(m, op.b)), Node, leaf).set(Some(g));
                        Ok(true)
                    }
                    None => Ok(false),
                })?;
                let Caught::Done(ok) = ok else { viol!("api.panic", "unexpected injected panic") };
                if ok {
                    self.cov.bump("upgrade_store_leaf");
                    if tdropped {
                        viol!("c05.upgrade_dropped", "upgrade returned a pointer to destructed leaf {t}");
                    }
                    self.sh.objs[op.b as usize].leaf = Some(t);
                } else {
                    if treach {
                        viol!("c05.upgrade_reachable_failed", "upgrade failed for strongly reachable leaf {t}");
                    }
                    if !tdropped && !sweeping {
                        viol!("c05.upgrade_spurious", "upgrade failed for undestructed leaf {t} outside Sweeping");
                    }
                }
            }
            // ------------------------------------------------------------------ dynamic roots
            K::Stash => {
                let r = self.with_mutate(|w, mc, root, m| {
                    let set: DynamicRootSet = root.sets[op.c as usize].unwrap();
                    let before = set.verif_slots().0;
                    let h = talloc::subject(|| set.stash::<Rootable![Node<'_>]>(mc, w.node(m, op.b)));
                    let after = set.verif_slots().0;
                    let mut slot = 255u8;
                    for (i, s) in after.iter().enumerate() {
                        let was = before.get(i).map(|b| b.is_ok()).unwrap_or(false);
                        if s.is_ok() && !was {
                            slot = i as u8;
                        }
                    }
                    Ok((h, slot))
                })?;
                let Caught::Done((h, slot)) = r else { viol!("api.panic", "unexpected injected panic") };
                self.hs[op.a as usize] = Some(h);
                self.sh.handles[op.a as usize] = Some((op.b, op.c, slot));
            }
            K::StashPair => {
                let id = self.alloc_id(KNODE);
                let r = self.with_mutate(|w, mc, root, m| {
                    let set: DynamicRootSet = root.sets[op.c as usize].unwrap();
                    let slots_of = |before: &[Result<usize, ()>], after: &[Result<usize, ()>]| -> u8 {
                        let mut slot = 255u8;
                        for (i, s) in after.iter().enumerate() {
                            let was = before.get(i).map(|b| b.is_ok()).unwrap_or(false);
                            if s.is_ok() && !was {
                                slot = i as u8;
                            }
                        }
                        slot
                    };
                    let s0: Vec<Result<usize, ()>> = set.verif_slots().0.iter().map(|x| x.as_ref().map(|_| 0usize).map_err(|_| ())).collect();
                    let h1 = talloc::subject(|| set.stash::<Rootable![Node<'_>]>(mc, w.node(m, op.b)));
                    let s1: Vec<Result<usize, ()>> = set.verif_slots().0.iter().map(|x| x.as_ref().map(|_| 0usize).map_err(|_| ())).collect();
                    let g = new_node(mc, base + id as u32);
                    let h2 = talloc::subject(|| set.stash::<Rootable![Node<'_>]>(mc, g));
                    let s2: Vec<Result<usize, ()>> = set.verif_slots().0.iter().map(|x| x.as_ref().map(|_| 0usize).map_err(|_| ())).collect();
                    Ok((h1, slots_of(&s0, &s1), h2, slots_of(&s1, &s2), Gc::as_ptr(g) as usize))
                })?;
                let Caught::Done((h1, slot1, h2, slot2, addr)) = r else { viol!("api.panic", "unexpected injected panic") };
                self.addrs.push((addr, id));
                self.hs[op.a as usize] = Some(h1);
                self.sh.handles[op.a as usize] = Some((op.b, op.c, slot1));
                self.hs[op.a as usize + 1] = Some(h2);
                self.sh.handles[op.a as usize + 1] = Some((id, op.c, slot2));
            }
            K::StashUp => {
                let t = self.sh.objs[op.b as usize].w.expect("weak");
                let r = self.with_mutate(|w, mc, root, m| {
                    let set: DynamicRootSet = root.sets[op.c as usize].unwrap();
                    let Some(g) = w.node(m, op.b).wk().unwrap().upgrade(mc) else { return Ok(None) };
                    let before = set.verif_slots().0;
                    let h = talloc::subject(|| set.stash::<Rootable![Node<'_>]>(mc, g));
                    let after = set.verif_slots().0;
                    let mut slot = 255u8;
                    for (i, s) in after.iter().enumerate() {
                        let was = before.get(i).map(|b| b.is_ok()).unwrap_or(false);
                        if s.is_ok() && !was {
                            slot = i as u8;
                        }
                    }
                    Ok(Some((h, slot)))
                })?;
                let Caught::Done(r) = r else { viol!("api.panic", "unexpected injected panic") };
                if let Some((h, slot)) = r {
                    self.cov.bump("stash_after_upgrade");
                    if self.sh.objs[t as usize].dropped {
                        viol!("c05.upgrade_dropped", "upgrade returned a pointer to destructed object {t}");
                    }
                    self.hs[op.a as usize] = Some(h);
                    self.sh.handles[op.a as usize] = Some((t, op.c, slot));
                }
            }
            K::CloneH => {
                let hs: &World = self;
                let Caught::Done(h) = guarded("DynamicRoot::clone", || hs.href(op.a as usize).unwrap().clone())? else { unreachable!() };
                self.hs[op.b as usize] = Some(h);
                self.sh.handles[op.b as usize] = self.sh.handles[op.a as usize];
            }
            K::StashLeaf => {
                let l = self.sh.objs[op.b as usize].leaf.expect("leaf");
                let r = self.with_mutate(|w, mc, root, m| {
                    let set: DynamicRootSet = root.sets[op.c as usize].unwrap();
                    let lg = w.node(m, op.b).leaf.get().unwrap();
                    Ok(talloc::subject(|| set.stash::<Rootable![RefLock<Leaf>]>(mc, lg)))
                })?;
                let Caught::Done(h) = r else { viol!("api.panic", "unexpected injected panic") };
                self.hl[op.a as usize] = Some(h);
                self.sh.lhandles[op.a as usize] = Some((l, op.c));
                self.cov.bump("stash_of_a_non_tracing_object");
            }
            K::DropHL => {
                let h = self.hl[op.a as usize].take();
                guarded("DynamicRoot::drop", move || drop(h))?;
                self.sh.lhandles[op.a as usize] = None;
            }
            K::CloneFromH => {
                let src = self.hs[op.a as usize].take().expect("source handle");
                let mut dst = self.hs[op.b as usize].take().expect("target handle");
                let r = guarded("DynamicRoot::clone_from", || {
                    dst.clone_from(&src);
                    dst
                });
                self.hs[op.a as usize] = Some(src);
                let Caught::Done(dst) = r? else { unreachable!() };
                self.hs[op.b as usize] = Some(dst);
                self.sh.handles[op.b as usize] = self.sh.handles[op.a as usize];
            }
            K::DropH => {
                let h = self.hs[op.a as usize].take();
                guarded("DynamicRoot::drop", move || drop(h))?;
                self.sh.handles[op.a as usize] = None;
            }
            K::PDropH => {
                let h = self.hs[op.a as usize].take();
                let r = guarded("DynamicRoot::drop during unwinding", move || {
                    let _h = h;
                    injected_panic()
                })?;
                if !matches!(r, Caught::Injected) {
                    viol!("c11.swallowed", "panic did not propagate");
                }
                self.sh.handles[op.a as usize] = None;
            }
            K::FetchRoot => {
                let (t, set, _) = self.sh.handles[op.a as usize].unwrap();
                self.with_root(0, |w, _, root, _| {
                    let g = root.sets[set as usize].unwrap().fetch(w.href(op.a as usize).unwrap());
                    if w.id_of_addr(Gc::as_ptr(g) as usize) != Some(t) {
                        viol!("c14.fetch_identity", "fetch of handle {} did not return the stashed object {t}", op.a);
                    }
                    root.r[op.b as usize] = Some(g);
                    Ok(())
                })?;
                self.sh.roots[op.b as usize] = Some(t);
            }
            K::FetchLink => {
                let (t, set, _) = self.sh.handles[op.a as usize].unwrap();
                self.with_mutate(|w, mc, root, m| {
                    let g = root.sets[set as usize].unwrap().fetch(w.href(op.a as usize).unwrap());
                    if w.id_of_addr(Gc::as_ptr(g) as usize) != Some(t) {
                        viol!("c14.fetch_identity", "fetch of handle {} did not return the stashed object {t}", op.a);
                    }
                    link(mc, w.node(m, op.b), op.c, Some(g));
                    Ok(())
                })?;
                self.sh.objs[op.b as usize].s[op.c as usize] = Some(t);
            }
            // ------------------------------------------------------------------ finalization
            K::FinQuery | K::FinRes | K::FinResStore | K::FinResInto | K::FinGcRes | K::PFin | K::FinResLeaf | K::FinResChild => return self.finalize(op),
            // ------------------------------------------------------------------ collector
            K::CycleStep => {
                self.norm(op.a)?;
                let a = self.arena_mut();
                guarded("Arena::cycle_debt", || a.cycle_debt())?;
            }
            K::MarkStep => {
                self.norm(op.a)?;
                let a = self.arena_mut();
                let Caught::Done(r) = guarded("Arena::mark_debt", || a.mark_debt().is_some())? else { unreachable!() };
                *ret_some = Some(r);
            }
            K::Step => {
                self.norm(op.a)?;
                let a = self.arena_mut();
                guarded("Arena::collect_debt", || a.collect_debt())?;
            }
            K::FinMark => {
                let a = self.arena_mut();
                let Caught::Done(r) = guarded("Arena::finish_marking", || a.finish_marking().is_some())? else { unreachable!() };
                *ret_some = Some(r);
            }
            K::FinCycle => {
                let a = self.arena_mut();
                guarded("Arena::finish_cycle", || a.finish_cycle())?;
            }
            K::StartSweep => {
                let a = self.arena_mut();
                let Caught::Done(r) = guarded("MarkedArena::start_sweeping", || match a.finish_marking() {
                    Some(m) => {
                        m.start_sweeping();
                        true
                    }
                    None => false,
                })?
                else {
                    unreachable!()
                };
                *ret_some = Some(r);
            }
            // ------------------------------------------------------------------ faults
            K::Fault => {
                // op.a >= 5: the same faulty call (op.a - 5) made ten times in a row within one transition - a trace
                // method that keeps panicking (e.g. a RefLock whose borrow guard was forgotten); the collector must
                // keep the object pending however often that happens
                let (which, repeats) = if op.a >= 5 { (op.a - 5, 10) } else { (op.a, 1) };
                for round in 0..repeats {
                    if which >= 2 {
                        self.norm(2)?;
                    }
                    arm_fault(op.b as u32);
                    let a = self.arena.as_mut().unwrap();
                    let r = guarded("collector call under trace fault", || match which {
                        0 => a.finish_cycle(),
                        1 => {
                            let _ = a.finish_marking();
                        }
                        2 => a.cycle_debt(),
                        3 => a.collect_debt(),
                        _ => {
                            let _ = a.mark_debt();
                        }
                    });
                    let fired = disarm_fault();
                    match r? {
                        Caught::Injected => {
                            if !fired {
                                viol!("api.panic", "injected panic surfaced without the fault point firing");
                            }
                            self.cov.bump("trace_fault_fired");
                        }
                        Caught::Done(()) => {
                            if fired {
                                viol!("c11.swallowed", "a panic raised in Collect::trace did not propagate out of the collector call");
                            }
                            if round == 0 {
                                return Err(Viol::new(NOFIRE, ""));
                            }
                            break;
                        }
                    }
                    if round + 1 < repeats {
                        // (the oracles hold between the repeated calls as well)
                        self.check()?;
                    }
                }
            }
            K::PLink => {
                let r = self.with_mutate(|w, mc, _, m| -> VResult<()> {
                    link(mc, w.node(m, op.a), op.b, Some(w.node(m, op.c)));
                    injected_panic()
                })?;
                if !matches!(r, Caught::Injected) {
                    viol!("c11.swallowed", "panic in mutate callback did not propagate");
                }
                self.sh.objs[op.a as usize].s[op.b as usize] = Some(op.c);
                self.cov.bump("callback_panic");
            }
            K::PGarbage => {
                let id = self.alloc_id(KNODE);
                let cell = std::cell::Cell::new(0usize);
                let r = self.with_mutate(|_, mc, _, _| -> VResult<()> {
                    cell.set(Gc::as_ptr(new_node(mc, base + id as u32)) as usize);
                    injected_panic()
                })?;
                if !matches!(r, Caught::Injected) {
                    viol!("c11.swallowed", "panic in mutate callback did not propagate");
                }
                self.addrs.push((cell.get(), id));
                self.cov.bump("callback_panic");
            }
            K::PNewRoot => {
                let id = self.alloc_id(KNODE);
                let cell = std::cell::Cell::new(0usize);
                let r = self.with_root(0, |_, mc, root, _| -> VResult<()> {
                    let g = new_node(mc, base + id as u32);
                    cell.set(Gc::as_ptr(g) as usize);
                    root.r[op.a as usize] = Some(g);
                    injected_panic()
                })?;
                if !matches!(r, Caught::Injected) {
                    viol!("c11.swallowed", "panic in mutate_root callback did not propagate");
                }
                self.addrs.push((cell.get(), id));
                self.sh.roots[op.a as usize] = Some(id);
                self.cov.bump("callback_panic");
            }
            // ------------------------------------------------------------------ natural debt
            K::AdjustDebt => {
                let x = ADJUSTS[op.a as usize];
                let before = self.metrics.allocation_debt();
                self.metrics.adjust_debt(x);
                let after = self.metrics.allocation_debt();
                if before > 0.0 && (after > 0.0 || before + x > 1e-6) {
                    // (a positive debt is the raw balance itself: raw + x is what must be reported while that is positive)
                    let err = (after - before - x).abs();
                    if err > 1e-9 * (1.0 + before.abs().max(x.abs())) {
                        viol!("c10.adjust_exact", "adjust_debt({x}) moved a positive debt from {before} to {after}");
                    }
                }
            }
            K::SetPacing => {
                self.metrics.set_pacing(pacing_table(op.a));
                self.pacing_idx = op.a;
            }
            K::Lend => {
                let h = self.incoming.take().expect("incoming handle");
                let r = self.with_mutate(move |w, _, _, m| {
                    let n = w.node(m, op.b);
                    let mut slot = n.held.borrow_mut();
                    *slot = Some(h);
                    Ok(slot.as_ref().unwrap() as *const H)
                })?;
                let Caught::Done(p) = r else { viol!("api.panic", "unexpected injected panic") };
                self.lent_out = Some(p);
                self.sh.objs[op.b as usize].held = Some(op.a);
            }
            K::DropArena | K::PresentForeign => unreachable!("product-only operation"),
        }
        self.check()
    }

    fn finalize(&mut self, op: Op) -> VResult {
        // finalization that leaves gray work behind is entered with a large outstanding debt as well:
        // nothing but marking may happen inside finish_marking / finalize whatever the debt
        if op.k != K::FinQuery && self.metrics.total_gc_count() > 0 && !self.sc.natural {
            self.metrics.adjust_debt(HUGE);
        }
        let reach = self.sh.reach_mask();
        let mutated = self.mutated;
        let mut arena = self.arena.take().expect("arena");
        let this: &World = self;
        let mut newly: Option<u8> = None;
        let mut was_dead = false;
        let mut ran = false;
        let (d0, f0) = (drops_len(), talloc::gc_frees_len());
        let r = guarded("finish_marking + MarkedArena::finalize", || -> VResult {
            let marked = if op.k == K::FinQuery && op.a == 1 {
                this.norm(1)?;
                arena.mark_debt()
            } else {
                arena.finish_marking()
            };
            #[allow(unused_mut)]
            let Some(mut marked) = marked else { return Ok(()) };
            ran = true;
            marked.finalize(|fc: &Finalization<'_>, root| -> VResult {
                let m = this.locate(root)?;
                // every strongly reachable object is alive
                for (id, o) in m.iter().enumerate() {
                    if let Some(Obj::Node(g)) = o {
                        if Gc::is_dead(fc, *g) {
                            viol!("c07.reachable_dead", "strongly reachable object {id} reports is_dead");
                        }
                    }
                }
                // weakly reachable closure
                let mut st: Vec<(u8, NodeGc)> = vec![];
                let mut seen = vec![false; this.sh.objs.len()];
                for (id, o) in m.iter().enumerate() {
                    let Some(Obj::Node(g)) = o else { continue };
                    let Some(wk) = g.wk() else { continue };
                    let t = this.sh.objs[id].w.unwrap();
                    let tr = reach[t as usize];
                    let td = this.sh.objs[t as usize].dropped;
                    if tr && wk.is_dead(fc) {
                        viol!("c07.weak_reachable_dead", "weak pointer to strongly reachable object {t} reports is_dead");
                    }
                    if !mutated && wk.is_dead(fc) != !tr {
                        viol!("c07.exact", "no mutation since marking began: weak target {t} reachable={tr} but is_dead={}", wk.is_dead(fc));
                    }
                    match wk.upgrade(fc) {
                        Some(u) => st.push((t, u)),
                        None => {
                            if !td {
                                viol!("c05.upgrade_spurious", "upgrade failed during finalization for undestructed object {t}");
                            }
                        }
                    }
                }
                while let Some((id, g)) = st.pop() {
                    if std::mem::replace(&mut seen[id as usize], true) {
                        continue;
                    }
                    let r_ = reach[id as usize];
                    if r_ && Gc::is_dead(fc, g) {
                        viol!("c07.reachable_dead", "strongly reachable object {id} (found via weak) reports is_dead");
                    }
                    if !mutated && Gc::is_dead(fc, g) != !r_ {
                        viol!("c07.exact", "no mutation since marking began: object {id} reachable={r_} but is_dead={}", Gc::is_dead(fc, g));
                    }
                    // a weak pointer made on the spot (never traced) answers like the strong pointer
                    if Gc::downgrade(g).is_dead(fc) != Gc::is_dead(fc, g) {
                        viol!("c07.weak_fresh", "object {id}: Gc::is_dead = {} but a fresh GcWeak to it reports is_dead = {}", Gc::is_dead(fc, g), Gc::downgrade(g).is_dead(fc));
                    }
                    // the weak pointer held by this object - never traced this cycle if the object is dead
                    if let (Some(wk), Some(t)) = (g.wk(), this.sh.objs[id as usize].w) {
                        let tr = reach[t as usize];
                        if tr && wk.is_dead(fc) {
                            viol!("c07.weak_reachable_dead", "weak pointer (held by object {id}) to strongly reachable object {t} reports is_dead");
                        }
                        if !mutated && wk.is_dead(fc) != !tr {
                            viol!("c07.exact", "no mutation since marking began: weak pointer held by {} object {id} to object {t} (reachable={tr}) reports is_dead={}", if r_ { "reachable" } else { "dead" }, wk.is_dead(fc));
                        }
                    }
                    for k in 0..2 {
                        if let Some(c) = g.s[k].get() {
                            if let Some(cid) = this.id_of_addr(Gc::as_ptr(c) as usize) {
                                st.push((cid, c));
                            }
                        }
                    }
                }
                // weak pointers to non-tracing leaves
                for (id, o) in m.iter().enumerate() {
                    let Some(Obj::Node(g)) = o else { continue };
                    let Some(wk) = g.wl.get() else { continue };
                    let t = this.sh.objs[id].wl.unwrap();
                    let tr = reach[t as usize];
                    if tr && wk.is_dead(fc) {
                        viol!("c07.weak_reachable_dead", "weak pointer to strongly reachable leaf {t} reports is_dead");
                    }
                    if !mutated && wk.is_dead(fc) != !tr {
                        viol!("c07.exact", "no mutation since marking began: leaf {t} reachable={tr} but is_dead={}", wk.is_dead(fc));
                    }
                }
                if op.k == K::FinResLeaf {
                    let wk = this.node(&m, op.a).wl.get().unwrap();
                    let t = this.sh.objs[op.a as usize].wl.unwrap();
                    let td = this.sh.objs[t as usize].dropped;
                    was_dead = wk.is_dead(fc);
                    let res = wk.resurrect(fc);
                    if res.is_some() == td {
                        viol!("c07.resurrect_result", "resurrect returned {} for a leaf whose destructor has{} run", if res.is_some() { "Some" } else { "None" }, if td { "" } else { " not" });
                    }
                    if res.is_some() {
                        newly = Some(t);
                    }
                }
                if op.k == K::FinResChild {
                    let wk = this.node(&m, op.a).wk().unwrap();
                    let t = this.sh.objs[op.a as usize].w.unwrap();
                    if let Some(g) = wk.upgrade(fc) {
                        if let (Some(cid), Some(c)) = (this.sh.objs[t as usize].s[0], g.s[0].get()) {
                            was_dead = Gc::is_dead(fc, c);
                            Gc::resurrect(fc, c);
                            newly = Some(cid);
                        }
                    }
                }
                match op.k {
                    K::FinRes | K::FinResStore | K::FinResInto | K::PFin | K::FinGcRes => {
                        let holder = this.node(&m, op.a);
                        let wk = holder.wk().unwrap();
                        let t = this.sh.objs[op.a as usize].w.unwrap();
                        let td = this.sh.objs[t as usize].dropped;
                        was_dead = wk.is_dead(fc);
                        let res = if op.k == K::FinGcRes {
                            // strong-pointer form: upgrade, then Gc::resurrect
                            match wk.upgrade(fc) {
                                Some(g) => {
                                    Gc::resurrect(fc, g);
                                    Some(g)
                                }
                                None => None,
                            }
                        } else {
                            wk.resurrect(fc)
                        };
                        if res.is_some() == td {
                            viol!("c07.resurrect_result", "resurrect returned {} for a target whose destructor has{} run", if res.is_some() { "Some" } else { "None" }, if td { "" } else { " not" });
                        }
                        if let Some(g) = res {
                            newly = Some(t);
                            if op.k == K::FinResStore {
                                link(fc, this.node(&m, op.b), op.c, Some(g));
                            }
                            if op.k == K::FinResInto {
                                // a write barrier on the object that was revived a moment ago
                                link(fc, g, 0, Some(this.node(&m, op.b)));
                            }
                        }
                        // after the callback's own barriers and resurrections: whatever was strongly reachable is
                        // still not dead (a barrier may have re-queued it), the resurrected object is alive
                        for (id, o) in m.iter().enumerate() {
                            if let Some(Obj::Node(g)) = o {
                                if Gc::is_dead(fc, *g) || Gc::downgrade(*g).is_dead(fc) {
                                    viol!("c07.reachable_dead", "strongly reachable object {id} reports is_dead after a resurrection / store in the same finalize callback");
                                }
                            }
                        }
                        if let Some(g) = res {
                            if Gc::is_dead(fc, g) || wk.is_dead(fc) {
                                viol!("c07.resurrected_dead", "object {t} reports is_dead right after it was resurrected");
                            }
                        }
                        if op.k == K::PFin {
                            injected_panic();
                        }
                    }
                    _ => {}
                }
                Ok(())
            })
        });
        let c3 = self.c03_exit("finalize", d0, f0);
        self.arena = Some(arena);
        c3?;
        match r? {
            Caught::Done(inner) => {
                inner?;
                if op.k == K::PFin && ran {
                    viol!("c11.swallowed", "panic in finalize callback did not propagate");
                }
            }
            Caught::Injected => {
                self.cov.bump("callback_panic");
            }
        }
        self.last_fin_ran = ran;
        if !ran {
            self.cov.bump("finalize_not_handed_out");
            return self.check();
        }
        self.cov.bump("finalize_ran");
        let post = self.phase();
        if !matches!(post, CollectionPhase::Marked | CollectionPhase::Marking) {
            viol!("c08.finalize_phase", "finalize left the arena in phase {post:?}");
        }
        if op.k != K::FinQuery {
            self.mutated = true;
            self.credit_calls += 1;
        }
        if let Some(n) = newly {
            self.cov.bump(if was_dead { "resurrect_dead" } else { "resurrect_alive" });
            if was_dead && post != CollectionPhase::Marking {
                viol!("c07.resurrect_phase", "phase is {post:?}, not Marking, after resurrecting a dead object");
            }
            if !self.resurrected.contains(&n) {
                self.resurrected.push(n);
                self.resurrected.sort();
            }
            if op.k == K::FinResStore {
                self.sh.objs[op.b as usize].s[op.c as usize] = Some(n);
            }
            if op.k == K::FinResInto {
                self.sh.objs[n as usize].s[0] = Some(op.b);
            }
        }
        self.check()
    }
}

/// Store through the safe setter of a lock allocated directly in a `Gc`. Returns whether the value
/// was stored (`Gc<OnceLock>::set` refuses when already set).
pub fn cell_set<'gc>(mc: &Mutation<'gc>, c: CellRef<'gc>, v: Option<NodeGc<'gc>>) -> bool {
    match c {
        CellRef::L(g) => {
            g.set(mc, v);
            true
        }
        CellRef::R(g) => {
            *g.borrow_mut(mc) = v;
            true
        }
        CellRef::O(g) => g.set(mc, v.expect("OnceLock cannot be cleared")).is_ok(),
        CellRef::W(g) => {
            assert!(v.is_none());
            g.set(mc, None);
            true
        }
        CellRef::WR(g) => {
            assert!(v.is_none());
            *g.borrow_mut(mc) = None;
            true
        }
    }
}
