//! Minimal JSON value + writer + parser (no external crates available offline are needed).

use std::collections::BTreeMap;
use std::fmt::Write;

#[derive(Clone, Debug, PartialEq)]
pub enum J {
    Null,
    Bool(bool),
    Int(i64),
    Num(f64),
    Str(String),
    Arr(Vec<J>),
    Obj(Vec<(String, J)>),
}

impl J {
    pub fn obj() -> J {
        J::Obj(vec![])
    }
    pub fn set(&mut self, k: &str, v: impl Into<J>) -> &mut Self {
        if let J::Obj(o) = self {
            let v = v.into();
            if let Some(e) = o.iter_mut().find(|e| e.0 == k) {
                e.1 = v;
            } else {
                o.push((k.to_string(), v));
            }
        }
        self
    }
    pub fn with(mut self, k: &str, v: impl Into<J>) -> Self {
        self.set(k, v);
        self
    }
    pub fn get(&self, k: &str) -> Option<&J> {
        match self {
            J::Obj(o) => o.iter().find(|e| e.0 == k).map(|e| &e.1),
            _ => None,
        }
    }
    pub fn as_str(&self) -> Option<&str> {
        match self {
            J::Str(s) => Some(s),
            _ => None,
        }
    }
    pub fn as_i64(&self) -> Option<i64> {
        match self {
            J::Int(i) => Some(*i),
            J::Num(f) => Some(*f as i64),
            _ => None,
        }
    }
    pub fn as_arr(&self) -> Option<&Vec<J>> {
        match self {
            J::Arr(a) => Some(a),
            _ => None,
        }
    }
    pub fn dump(&self) -> String {
        let mut s = String::new();
        self.write(&mut s, 0);
        s
    }
    fn write(&self, out: &mut String, ind: usize) {
        match self {
            J::Null => out.push_str("null"),
            J::Bool(b) => out.push_str(if *b { "true" } else { "false" }),
            J::Int(i) => {
                let _ = write!(out, "{i}");
            }
            J::Num(f) => {
                if f.is_finite() {
                    let _ = write!(out, "{f}");
                } else {
                    out.push_str("null");
                }
            }
            J::Str(s) => esc(s, out),
            J::Arr(a) => {
                if a.is_empty() {
                    out.push_str("[]");
                    return;
                }
                let simple = a.iter().all(|x| !matches!(x, J::Arr(_) | J::Obj(_)));
                out.push('[');
                for (i, x) in a.iter().enumerate() {
                    if i > 0 {
                        out.push(',');
                    }
                    if !simple {
                        out.push('\n');
                        out.push_str(&" ".repeat(ind + 1));
                    } else if i > 0 {
                        out.push(' ');
                    }
                    x.write(out, ind + 1);
                }
                if !simple {
                    out.push('\n');
                    out.push_str(&" ".repeat(ind));
                }
                out.push(']');
            }
            J::Obj(o) => {
                if o.is_empty() {
                    out.push_str("{}");
                    return;
                }
                out.push('{');
                for (i, (k, v)) in o.iter().enumerate() {
                    if i > 0 {
                        out.push(',');
                    }
                    out.push('\n');
                    out.push_str(&" ".repeat(ind + 1));
                    esc(k, out);
                    out.push_str(": ");
                    v.write(out, ind + 1);
                }
                out.push('\n');
                out.push_str(&" ".repeat(ind));
                out.push('}');
            }
        }
    }
}

fn esc(s: &str, out: &mut String) {
    out.push('"');
    for c in s.chars() {
        match c {
            '"' => out.push_str("\\\""),
            '\\' => out.push_str("\\\\"),
            '\n' => out.push_str("\\n"),
            '\t' => out.push_str("\\t"),
            '\r' => out.push_str("\\r"),
            c if (c as u32) < 0x20 => {
                let _ = write!(out, "\\u{:04x}", c as u32);
            }
            c => out.push(c),
        }
    }
    out.push('"');
}

impl From<bool> for J {
    fn from(v: bool) -> J {
        J::Bool(v)
    }
}
impl From<i64> for J {
    fn from(v: i64) -> J {
        J::Int(v)
    }
}
impl From<u64> for J {
    fn from(v: u64) -> J {
        J::Int(v as i64)
    }
}
impl From<usize> for J {
    fn from(v: usize) -> J {
        J::Int(v as i64)
    }
}
impl From<u32> for J {
    fn from(v: u32) -> J {
        J::Int(v as i64)
    }
}
impl From<i32> for J {
    fn from(v: i32) -> J {
        J::Int(v as i64)
    }
}
impl From<f64> for J {
    fn from(v: f64) -> J {
        J::Num(v)
    }
}
impl From<&str> for J {
    fn from(v: &str) -> J {
        J::Str(v.to_string())
    }
}
impl From<String> for J {
    fn from(v: String) -> J {
        J::Str(v)
    }
}
impl<T: Into<J>> From<Vec<T>> for J {
    fn from(v: Vec<T>) -> J {
        J::Arr(v.into_iter().map(Into::into).collect())
    }
}
impl<T: Into<J>> From<BTreeMap<String, T>> for J {
    fn from(v: BTreeMap<String, T>) -> J {
        J::Obj(v.into_iter().map(|(k, v)| (k, v.into())).collect())
    }
}

// ---- parser (enough for replay files and known_findings.json) ----

pub fn parse(s: &str) -> Result<J, String> {
    let b = s.as_bytes();
    let mut i = 0;
    let v = pv(b, &mut i)?;
    ws(b, &mut i);
    if i != b.len() {
        return Err(format!("trailing data at {i}"));
    }
    Ok(v)
}
fn ws(b: &[u8], i: &mut usize) {
    while *i < b.len() && (b[*i] as char).is_whitespace() {
        *i += 1;
    }
}
fn pv(b: &[u8], i: &mut usize) -> Result<J, String> {
    ws(b, i);
    if *i >= b.len() {
        return Err("eof".into());
    }
    match b[*i] {
        b'{' => {
            *i += 1;
            let mut o = vec![];
            loop {
                ws(b, i);
                if b.get(*i) == Some(&b'}') {
                    *i += 1;
                    break;
                }
                let k = match pv(b, i)? {
                    J::Str(s) => s,
                    _ => return Err("key".into()),
                };
                ws(b, i);
                if b.get(*i) != Some(&b':') {
                    return Err("colon".into());
                }
                *i += 1;
                let v = pv(b, i)?;
                o.push((k, v));
                ws(b, i);
                match b.get(*i) {
                    Some(b',') => *i += 1,
                    Some(b'}') => {
                        *i += 1;
                        break;
                    }
                    _ => return Err(format!("obj sep at {i}")),
                }
            }
            Ok(J::Obj(o))
        }
        b'[' => {
            *i += 1;
            let mut a = vec![];
            loop {
                ws(b, i);
                if b.get(*i) == Some(&b']') {
                    *i += 1;
                    break;
                }
                a.push(pv(b, i)?);
                ws(b, i);
                match b.get(*i) {
                    Some(b',') => *i += 1,
                    Some(b']') => {
                        *i += 1;
                        break;
                    }
                    _ => return Err(format!("arr sep at {i}")),
                }
            }
            Ok(J::Arr(a))
        }
        b'"' => {
            *i += 1;
            let mut s = String::new();
            while *i < b.len() && b[*i] != b'"' {
                if b[*i] == b'\\' {
                    *i += 1;
                    match b.get(*i) {
                        Some(b'n') => s.push('\n'),
                        Some(b't') => s.push('\t'),
                        Some(b'r') => s.push('\r'),
                        Some(b'u') => {
                            let h = std::str::from_utf8(&b[*i + 1..*i + 5]).map_err(|e| e.to_string())?;
                            s.push(char::from_u32(u32::from_str_radix(h, 16).map_err(|e| e.to_string())?).unwrap_or('?'));
                            *i += 4;
                        }
                        Some(c) => s.push(*c as char),
                        None => return Err("eof in escape".into()),
                    }
                    *i += 1;
                } else {
                    let st = *i;
                    while *i < b.len() && b[*i] != b'"' && b[*i] != b'\\' {
                        *i += 1;
                    }
                    s.push_str(std::str::from_utf8(&b[st..*i]).map_err(|e| e.to_string())?);
                }
            }
            *i += 1;
            Ok(J::Str(s))
        }
        b't' => {
            *i += 4;
            Ok(J::Bool(true))
        }
        b'f' => {
            *i += 5;
            Ok(J::Bool(false))
        }
        b'n' => {
            *i += 4;
            Ok(J::Null)
        }
        _ => {
            let st = *i;
            while *i < b.len() && matches!(b[*i], b'0'..=b'9' | b'-' | b'+' | b'.' | b'e' | b'E') {
                *i += 1;
            }
            let t = std::str::from_utf8(&b[st..*i]).unwrap();
            if let Ok(n) = t.parse::<i64>() {
                Ok(J::Int(n))
            } else {
                t.parse::<f64>().map(J::Num).map_err(|e| format!("num {t}: {e}"))
            }
        }
    }
}
