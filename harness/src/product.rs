//! Product of two real arenas living on one thread (C20).
//!
//! State = pair of canonical forms. Every operation acts on one arena; the oracle is
//! non-interference on the *other* arena's observations (canonical bookkeeping incl. colours,
//! drop log, Gc count, debt bits, phase, handle validity) plus each arena's own oracles and probes.

use gc_arena::metrics::Pacing;

use crate::{
    VResult, Viol,
    engine::{Limits, Outcome, Sys, explore, run_history, run_history_full},
    ops::{K, Op},
    scopes::{Probes, Scope, scope},
    viol,
    wops::guarded,
    world::{Cov, World, drops_from},
};

pub fn pair(name: &str) -> (Scope, Scope) {
    let (a, b) = match name {
        "P11" => ("P1", "P1"),
        "P21" => ("P2", "P1"),
        "P22" => ("P2", "P2"),
        "P11l" => ("P1l", "P1l"),
        "P21l" => ("P2l", "P1l"),
        _ => panic!("unknown product scope {name}"),
    };
    (scope(a).unwrap(), scope(b).unwrap())
}

pub struct Product {
    pub w: [World; 2],
}

#[derive(PartialEq, Debug)]
struct Obs {
    canon: Vec<u8>,
    drops: Vec<u32>,
    count: usize,
    debt: u64,
    phase: Option<u8>,
    handles: Vec<bool>,
}

impl Product {
    fn observe(&self, i: usize) -> Obs {
        let w = &self.w[i];
        let mut canon = vec![];
        w.canon(&mut canon);
        let lo = w.base;
        Obs {
            canon,
            drops: drops_from(0).into_iter().filter(|d| *d >= lo && *d < lo + 128).collect(),
            count: w.metrics.total_gc_count(),
            debt: w.metrics.allocation_debt().to_bits(),
            phase: w.arena.as_ref().map(|a| crate::world::ph(a.collection_phase())),
            handles: w.sh.handles.iter().map(|h| h.is_some()).collect(),
        }
    }

    /// Present every live handle of arena `i` to the set of arena `1 - i` (if alive): refused.
    fn present_foreign(&self, i: usize) -> VResult {
        let (me, other) = (&self.w[i], &self.w[1 - i]);
        let Some(oa) = other.arena.as_ref() else { return Ok(()) };
        if other.sc.sets == 0 {
            return Ok(());
        }
        for hi in 0..me.hs.len() {
            // wherever the handle is owned: by the harness or by a heap value of the other arena
            let Some(h) = me.href(hi) else { continue };
            let r = guarded("presentation of a foreign handle", || {
                oa.mutate(|_, root| -> VResult {
                    let s = root.sets[0].unwrap();
                    if s.contains(h) || s.try_fetch(h).is_ok() {
                        viol!("c20.foreign_handle_accepted", "arena {} accepted handle {hi} issued by arena {i}", 1 - i);
                    }
                    let p = std::panic::catch_unwind(std::panic::AssertUnwindSafe(|| {
                        let _ = s.fetch(h);
                    }));
                    if p.is_ok() {
                        viol!("c20.foreign_handle_accepted", "fetch of handle {hi} of arena {i} on arena {} did not panic", 1 - i);
                    }
                    Ok(())
                })
            })?;
            if let crate::wops::Caught::Done(r) = r {
                r?;
            }
        }
        Ok(())
    }
}

impl Product {
    /// Handles owned by heap values of arena `i` whose destructor has run are gone: the issuing
    /// arena's shadow forgets them. Returns how many were released.
    fn release_lent(&mut self, i: usize) -> usize {
        let mut n = 0;
        for k in 0..self.w[i].sh.objs.len() {
            let o = &mut self.w[i].sh.objs[k];
            if let (Some(hi), true) = (o.held, o.dropped) {
                o.held = None;
                let alive = self.w[1 - i].arena.is_some();
                let other = &mut self.w[1 - i];
                other.sh.handles[hi as usize] = None;
                other.lent[hi as usize] = None;
                other.cov.bump(if alive { "lent_handle_dropped_by_foreign_heap" } else { "lent_handle_dropped_after_issuer_died" });
                n += 1;
            }
        }
        n
    }
}

impl Sys for Product {
    fn create(sc: &Scope) -> Self {
        let (a, b) = pair(sc.name);
        let wa = World::new(a, 0);
        let wb = World::new(b, 128);
        wb.metrics.set_pacing(Pacing { sleep_factor: 0.0, min_sleep: 0, mark_factor: 0.3, trace_factor: 0.3, keep_factor: 0.3, drop_factor: 0.45, free_factor: 0.45 });
        Product { w: [wa, wb] }
    }
    fn enabled(&self) -> Vec<Op> {
        let mut ops = vec![];
        for i in 0..2 {
            for op in self.w[i].enabled() {
                ops.push(op.on(i as u8));
            }
            if self.w[i].arena.is_some() {
                ops.push(Op::n0(K::DropArena).on(i as u8));
            } else {
                for (hi, h) in self.w[i].sh.handles.iter().enumerate() {
                    if h.is_some() && self.w[i].lent[hi].is_none() {
                        ops.push(Op::n1(K::DropH, hi as u8).on(i as u8));
                    }
                }
            }
            // a handle of the other arena moves into a heap value of this one
            if self.w[i].arena.is_some() && self.w[i].sc.lend {
                let other = &self.w[1 - i];
                let sh = &self.w[i].sh;
                for hi in 0..other.hs.len() {
                    if other.hs[hi].is_some() && other.sh.handles[hi].is_some() {
                        for b in sh.reach() {
                            if sh.objs[b as usize].kind == crate::world::KNODE && sh.objs[b as usize].held.is_none() {
                                ops.push(Op::n2(K::Lend, hi as u8, b).on(i as u8));
                            }
                        }
                    }
                }
            }
        }
        ops
    }
    fn apply(&mut self, op: Op) -> VResult {
        let i = op.w as usize;
        let verify = self.w[i].verify;
        let before = if verify { Some(self.observe(1 - i)) } else { None };
        let mut local = op;
        local.w = 0;
        match op.k {
            K::DropArena => {
                let w = &mut self.w[i];
                let arena = w.arena.take();
                guarded("drop(Arena)", move || drop(arena))?;
                w.sync_logs()?;
                for (k, o) in w.sh.objs.iter().enumerate() {
                    if !o.dropped || !o.freed {
                        viol!("c04.not_destructed", "arena {i} dropped: object {k} destructed={} released={}", o.dropped, o.freed);
                    }
                }
                if w.metrics.total_gc_count() != 0 {
                    viol!("c04.count_after_drop", "arena {i}: total_gc_count() = {} after drop", w.metrics.total_gc_count());
                }
                // the dead arena's memory is never looked at again: let the allocator recycle it, so
                // that stale handles can meet recycled addresses in the surviving arena
                if self.w[1 - i].arena.is_some() && self.w[1 - i].sh.objs.iter().all(|o| !o.freed || o.dropped) {
                    crate::talloc::flush_freed();
                    self.w[i].cov.bump("dead_arena_memory_recycled");
                    // an arena created only now (its root set may land on the dead set's address)
                    // must refuse the dead arena's handles as well
                    if verify && self.w[i].hs.iter().any(|h| h.is_some()) {
                        let late = World::new(Scope { sets: 1, ..self.w[i].sc }, 768);
                        let me = &self.w[i];
                        let r = guarded("presentation to an arena created after the handle's arena died", || -> VResult {
                            for (hi, h) in me.hs.iter().enumerate() {
                                let Some(h) = h else { continue };
                                late.arena().mutate(|_, root| -> VResult {
                                    let s = root.sets[0].unwrap();
                                    if s.contains(h) || s.try_fetch(h).is_ok() {
                                        viol!("c20.foreign_handle_accepted", "an arena created after arena {i} was dropped accepted its handle {hi}");
                                    }
                                    Ok(())
                                })?;
                            }
                            Ok(())
                        })?;
                        if let crate::wops::Caught::Done(r) = r {
                            r?;
                        }
                        late.finish()?;
                    }
                }
            }
            K::DropH if self.w[i].arena.is_none() => {
                let h = self.w[i].hs[op.a as usize].take();
                guarded("DynamicRoot::drop after arena death", move || drop(h))?;
                self.w[i].sh.handles[op.a as usize] = None;
            }
            K::Lend => {
                let h = self.w[1 - i].hs[op.a as usize].take().expect("handle to lend");
                self.w[i].incoming = Some(h);
                self.w[i].apply(local)?;
                let p = self.w[i].lent_out.take().expect("where the handle went");
                self.w[1 - i].lent[op.a as usize] = Some(p);
                self.w[i].cov.bump("handle_moved_into_foreign_heap");
            }
            _ => self.w[i].apply(local)?,
        }
        // heap values that owned a handle of the other arena and were destructed released it
        let released = self.release_lent(i);
        if let Some(mut before) = before {
            let mut after = self.observe(1 - i);
            if op.k == K::Lend || released > 0 {
                // the other arena's handle bookkeeping legitimately changed (and nothing else)
                before.canon.clear();
                after.canon.clear();
                before.handles.clear();
                after.handles.clear();
            }
            if before != after {
                let what = if before.canon != after.canon {
                    "collector bookkeeping / colours / list"
                } else if before.drops != after.drops {
                    "destructors run"
                } else if before.count != after.count {
                    "Gc count"
                } else if before.debt != after.debt {
                    "allocation debt"
                } else if before.phase != after.phase {
                    "phase"
                } else {
                    "handles"
                };
                viol!("c20.interference", "operation {op:?} on arena {i} changed arena {}: {what}", 1 - i);
            }
            // the other arena's own oracles still hold
            if self.w[1 - i].arena.is_some() {
                self.w[1 - i].check()?;
            }
            self.present_foreign(i)?;
            self.present_foreign(1 - i)?;
        }
        Ok(())
    }
    fn canon(&self, out: &mut Vec<u8>) {
        self.w[0].canon(out);
        out.push(0xFD);
        self.w[1].canon(out);
    }
    fn set_verify(&mut self, v: bool) {
        self.w[0].verify = v;
        self.w[1].verify = v;
    }
    fn finish(self) -> VResult {
        let [a, b] = self.w;
        a.finish()?;
        b.finish()
    }
    fn take_cov(&mut self) -> Cov {
        let mut c = std::mem::take(&mut self.w[0].cov);
        c.merge(&std::mem::take(&mut self.w[1].cov));
        c
    }
    fn probe_count(&self, p: &Probes) -> usize {
        let per = p.c02 as usize + p.c04 as usize;
        2 * per
    }
    fn probe(self, p: &Probes, i: usize) -> VResult {
        let per = p.c02 as usize + p.c04 as usize;
        let which = i / per;
        let kind = i % per;
        let before = self.observe(1 - which);
        let holds_foreign = self.w[which].sh.objs.iter().any(|o| o.held.is_some());
        let [a, b] = self.w;
        let (me, other) = if which == 0 { (a, b) } else { (b, a) };
        if me.arena.is_none() {
            me.finish()?;
            return other.finish();
        }
        let c02 = p.c02 && kind == 0;
        if c02 {
            me.probe_c02()?;
        } else {
            me.probe_c04()?;
        }
        // rebuild a product view of the other arena for the comparison
        let mut canon = vec![];
        other.canon(&mut canon);
        if holds_foreign {
            // the probe destructs heap values that own the other arena's handles: its slots change
        } else if canon != before.canon || other.metrics.total_gc_count() != before.count || other.metrics.allocation_debt().to_bits() != before.debt {
            return Err(Viol::new("c20.interference", format!("a {} probe on arena {which} changed arena {}", if c02 { "2x finish_cycle" } else { "drop" }, 1 - which)));
        }
        other.finish()
    }
}

pub fn explore_product(scope_name: &str, prop: &str, probes: &Probes, lim: &Limits) -> Outcome {
    let sc = Scope { name: Box::leak(scope_name.to_string().into_boxed_str()), ..scope("P1").unwrap() };
    explore::<Product>(&sc, prop, probes, lim)
}

pub fn replay_product(scope_name: &str, ops: &[Op], probes: &Probes, probe: Option<i64>) -> String {
    let sc = Scope { name: Box::leak(scope_name.to_string().into_boxed_str()), ..scope("P1").unwrap() };
    match run_history_full::<Product>(&sc, ops) {
        Err((i, v)) => format!("VIOLATED at step {i} ({:?}): {} — {}", ops.get(i), v.oracle, v.msg),
        Ok(h) => {
            let (_, pv) = run_history::<Product>(&sc, ops, probes);
            match pv.iter().find(|(i, _)| probe.map(|p| p as usize == *i).unwrap_or(true)) {
                Some((i, v)) => format!("VIOLATED in probe {i}: {} — {}", v.oracle, v.msg),
                None => format!("holds (final state hash {h:032x})"),
            }
        }
    }
}
