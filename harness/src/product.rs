//! Product of two arenas on one thread (C20). Filled in below.
use crate::{engine::{Limits, Outcome}, ops::Op, scopes::Probes};
pub fn explore_product(_scope: &str, _prop: &str, _probes: &Probes, _lim: &Limits) -> Outcome { unimplemented!() }
pub fn replay_product(_scope: &str, _ops: &[Op], _probes: &Probes, _probe: Option<i64>) -> String { unimplemented!() }
