//! The explored world: a real `Arena` with harness payload types, a boring shadow model, and the
//! observation channels (drop log, tracking allocator, lock-step traversal).

use std::cell::{Cell, RefCell};

use gc_arena::{
    Arena, Collect, DynamicRoot, DynamicRootSet, Gc, GcWeak, Lock, RefLock, Rootable,
    arena::CollectionPhase,
    collect::Trace,
    lock::OnceLock,
    metrics::Metrics,
};

use crate::{VResult, Viol, scopes::Scope, talloc, viol};

// ------------------------------------------------------------------------------------------------
// thread-local logs and fault injection

thread_local! {
    static DROPS: RefCell<Vec<u32>> = const { RefCell::new(Vec::new()) };
    static PANIC_AT: Cell<Option<u32>> = const { Cell::new(None) };
    static FIRED: Cell<bool> = const { Cell::new(false) };
    static TRACE_CALLS: Cell<u64> = const { Cell::new(0) };
}

pub fn drops_len() -> usize {
    DROPS.with(|d| d.borrow().len())
}
pub fn drops_from(i: usize) -> Vec<u32> {
    talloc::bypass(|| DROPS.with(|d| d.borrow()[i..].to_vec()))
}
/// Destructors of ARENA values logged since position `i` (tokens >= 4096 belong to `rootless_mutate` temporaries).
pub fn arena_drops_since(i: usize) -> usize {
    DROPS.with(|d| d.borrow()[i..].iter().filter(|x| **x < 4096).count())
}
pub fn dropped_times(id: u32) -> usize {
    DROPS.with(|d| d.borrow().iter().filter(|x| **x == id).count())
}
pub fn drops_clear() {
    talloc::bypass(|| DROPS.with(|d| d.borrow_mut().clear()));
}
pub fn trace_calls() -> u64 {
    TRACE_CALLS.with(|t| t.get())
}

pub struct InjectedPanic;

fn fault_point() {
    TRACE_CALLS.with(|t| t.set(t.get() + 1));
    PANIC_AT.with(|p| {
        if let Some(k) = p.get() {
            if k == 0 {
                p.set(None);
                FIRED.with(|f| f.set(true));
                std::panic::resume_unwind(Box::new(InjectedPanic));
            } else {
                p.set(Some(k - 1));
            }
        }
    });
}

pub fn arm_fault(k: u32) {
    PANIC_AT.with(|p| p.set(Some(k)));
    FIRED.with(|f| f.set(false));
}
pub fn disarm_fault() -> bool {
    PANIC_AT.with(|p| p.set(None));
    FIRED.with(|f| f.get())
}

/// Panic raised deliberately by a harness callback (C11).
pub fn injected_panic() -> ! {
    std::panic::resume_unwind(Box::new(InjectedPanic))
}

// ------------------------------------------------------------------------------------------------
// payload types

pub struct Tok(pub u32);
impl Drop for Tok {
    fn drop(&mut self) {
        let id = self.0;
        talloc::bypass(|| DROPS.with(|d| d.borrow_mut().push(id)));
    }
}

pub fn pattern(id: u32) -> u64 {
    (id as u64 + 1).wrapping_mul(0x9E37_79B9_7F4A_7C15) ^ 0xA5A5_5A5A_1234_8765
}

/// Non-tracing payload (`NEEDS_TRACE = false`), lives in `Gc<RefLock<Leaf>>`.
pub struct Leaf {
    pub id: u32,
    pub pat: u64,
    pub n: u32,
    pub _tok: Tok,
}
unsafe impl<'gc> Collect<'gc> for Leaf {
    const NEEDS_TRACE: bool = false;
}

pub type NodeGc<'gc> = Gc<'gc, Node<'gc>>;
pub type LeafGc<'gc> = Gc<'gc, RefLock<Leaf>>;

#[derive(Clone, Copy)]
pub enum CellRef<'gc> {
    L(Gc<'gc, Lock<Option<NodeGc<'gc>>>>),
    R(Gc<'gc, RefLock<Option<NodeGc<'gc>>>>),
    O(Gc<'gc, OnceLock<NodeGc<'gc>>>),
    /// locks allocated directly in a Gc that hold a WEAK pointer (stored through `Gc<Lock>::set` / `Gc<RefLock>::borrow_mut`)
    W(Gc<'gc, Lock<Option<GcWeak<'gc, Node<'gc>>>>>),
    WR(Gc<'gc, RefLock<Option<GcWeak<'gc, Node<'gc>>>>>),
}
unsafe impl<'gc> Collect<'gc> for CellRef<'gc> {
    fn trace<T: Trace<'gc>>(&self, cc: &mut T) {
        match self {
            CellRef::L(g) => cc.trace(g),
            CellRef::R(g) => cc.trace(g),
            CellRef::O(g) => cc.trace(g),
            CellRef::W(g) => cc.trace(g),
            CellRef::WR(g) => cc.trace(g),
        }
    }
}
impl<'gc> CellRef<'gc> {
    pub fn addr(self) -> usize {
        match self {
            CellRef::L(g) => Gc::as_ptr(g) as *const () as usize,
            CellRef::R(g) => Gc::as_ptr(g) as *const () as usize,
            CellRef::O(g) => Gc::as_ptr(g) as *const () as usize,
            CellRef::W(g) => Gc::as_ptr(g) as *const () as usize,
            CellRef::WR(g) => Gc::as_ptr(g) as *const () as usize,
        }
    }
    pub fn child(self) -> Option<NodeGc<'gc>> {
        match self {
            CellRef::L(g) => g.get(),
            CellRef::R(g) => *g.borrow(),
            CellRef::O(g) => g.get().copied(),
            CellRef::W(_) | CellRef::WR(_) => None,
        }
    }
    pub fn weak_child(self) -> Option<GcWeak<'gc, Node<'gc>>> {
        match self {
            CellRef::W(g) => g.get(),
            CellRef::WR(g) => *g.borrow(),
            _ => None,
        }
    }
    pub fn erase(self) -> Gc<'gc, ()> {
        match self {
            CellRef::L(g) => Gc::erase(g),
            CellRef::R(g) => Gc::erase(g),
            CellRef::O(g) => Gc::erase(g),
            CellRef::W(g) => Gc::erase(g),
            CellRef::WR(g) => Gc::erase(g),
        }
    }
}

/// A weak slot behind a trait object: traced through the object-safe `DynCollect` path.
pub trait WeakSlot<'gc>: 'gc + gc_arena::collect::DynCollect<'gc> {
    fn cell(&self) -> &Lock<Option<GcWeak<'gc, Node<'gc>>>>;
}
gc_arena::collect::dyn_collect!(dyn WeakSlot<'gc>);
pub struct WSlot<'gc>(pub Lock<Option<GcWeak<'gc, Node<'gc>>>>);
unsafe impl<'gc> Collect<'gc> for WSlot<'gc> {
    fn trace<T: Trace<'gc>>(&self, cc: &mut T) {
        cc.trace(&self.0);
    }
}
impl<'gc> WeakSlot<'gc> for WSlot<'gc> {
    fn cell(&self) -> &Lock<Option<GcWeak<'gc, Node<'gc>>>> {
        &self.0
    }
}
/// Set by the scope (per execution thread): the weak slot of a node is the one behind the trait object.
thread_local! { pub static DYNWEAK: Cell<bool> = const { Cell::new(false) }; }

pub struct Node<'gc> {
    pub id: u32,
    pub pat: u64,
    pub _tok: Tok,
    pub s: [Lock<Option<NodeGc<'gc>>>; 2],
    pub w: Lock<Option<GcWeak<'gc, Node<'gc>>>>,
    pub dw: Box<dyn WeakSlot<'gc> + 'gc>,
    pub leaf: Lock<Option<LeafGc<'gc>>>,
    pub wl: Lock<Option<GcWeak<'gc, RefLock<Leaf>>>>,
    pub cell: Lock<Option<CellRef<'gc>>>,
    /// a handle issued by ANOTHER arena's root set, owned by this heap value (product scope, C20 / C14)
    pub held: std::cell::RefCell<Option<H>>,
}
thread_local! {
    /// Number of times a value was formatted (`{:?}`) in a block the allocator has already taken back.
    pub static FMT_RELEASED: Cell<u32> = const { Cell::new(0) };
    static FMT_DEPTH: Cell<u32> = const { Cell::new(0) };
}
/// `{:?}` of a node walks its strong children (as a derived impl would). Before reading anything it asks the
/// tracking allocator whether the block it sits in is still allocated: formatting a pointer is a query, and a
/// query must never read released memory.
impl<'gc> std::fmt::Debug for Node<'gc> {
    fn fmt(&self, f: &mut std::fmt::Formatter<'_>) -> std::fmt::Result {
        if crate::talloc::addr_allocated(self as *const Self as usize) == Some(false) {
            FMT_RELEASED.with(|c| c.set(c.get() + 1));
            return f.write_str("<released>");
        }
        write!(f, "Node#{}", self.id)?;
        let d = FMT_DEPTH.with(|c| c.replace(c.get() + 1));
        if d < 3 {
            for s in &self.s {
                if let Some(g) = s.get() {
                    write!(f, " -> {:?}", g)?;
                }
            }
        }
        FMT_DEPTH.with(|c| c.set(d));
        Ok(())
    }
}
unsafe impl<'gc> Collect<'gc> for Node<'gc> {
    fn trace<T: Trace<'gc>>(&self, cc: &mut T) {
        cc.trace(&self.s[0]);
        fault_point();
        cc.trace(&self.s[1]);
        cc.trace(&self.w);
        cc.trace(&self.dw);
        cc.trace(&self.leaf);
        cc.trace(&self.wl);
        cc.trace(&self.cell);
    }
}

impl<'gc> Node<'gc> {
    /// the node's weak slot (direct field, or the one behind the trait object in `dynweak` scopes)
    pub fn wcell(&self) -> &Lock<Option<GcWeak<'gc, Node<'gc>>>> {
        if DYNWEAK.with(|d| d.get()) { self.dw.cell() } else { &self.w }
    }
    pub fn wk(&self) -> Option<GcWeak<'gc, Node<'gc>>> {
        self.wcell().get()
    }
}

pub struct Root<'gc> {
    pub r: [Option<NodeGc<'gc>>; 2],
    pub sets: [Option<DynamicRootSet<'gc>>; 2],
    /// identity of this root value (a root value is destructed exactly once)
    pub serial: u32,
}
thread_local! {
    static ROOT_SERIAL: Cell<u32> = const { Cell::new(0) };
    static ROOT_DROPS: RefCell<Vec<u32>> = const { RefCell::new(Vec::new()) };
}
pub fn new_root_serial() -> u32 {
    ROOT_SERIAL.with(|c| {
        c.set(c.get() + 1);
        c.get()
    })
}
/// Root values destructed more than once since the last call.
pub fn take_root_double_drops() -> usize {
    talloc::bypass(|| {
        ROOT_DROPS.with(|d| {
            let mut v = std::mem::take(&mut *d.borrow_mut());
            let n = v.len();
            v.sort();
            v.dedup();
            n - v.len()
        })
    })
}
unsafe impl<'gc> Collect<'gc> for Root<'gc> {
    fn trace<T: Trace<'gc>>(&self, cc: &mut T) {
        cc.trace(&self.r[0]);
        fault_point();
        cc.trace(&self.r[1]);
        cc.trace(&self.sets[0]);
        cc.trace(&self.sets[1]);
    }
}

thread_local! {
    /// pointers found dangling by a root value's own destructor (see `Drop for Root`)
    static ROOT_DROP_DANGLING: Cell<u32> = const { Cell::new(0) };
}
/// The root is an ordinary value with a destructor, and a destructor may look at what the value
/// points to: when the root is dropped (with its arena, or when a callback replaces it) every
/// allocation it still points to must be intact. Nothing is dereferenced: the tracking allocator is
/// asked whether the block is still allocated.
impl<'gc> Drop for Root<'gc> {
    fn drop(&mut self) {
        let serial = self.serial;
        talloc::bypass(|| ROOT_DROPS.with(|d| d.borrow_mut().push(serial)));
        let mut bad = 0;
        for g in self.r.iter().flatten() {
            if talloc::addr_allocated((Gc::as_ptr(*g) as usize).wrapping_sub(1)) != Some(true) {
                bad += 1;
            }
        }
        for s in self.sets.iter().flatten() {
            if talloc::addr_allocated(s.verif_addr().wrapping_sub(1)) == Some(false) {
                bad += 1;
            }
        }
        if bad > 0 {
            ROOT_DROP_DANGLING.with(|c| c.set(c.get() + bad));
        }
    }
}
pub fn take_root_drop_dangling() -> u32 {
    ROOT_DROP_DANGLING.with(|c| c.replace(0))
}

pub type RootT = Rootable![Root<'_>];
pub type A = Arena<RootT>;
pub type H = DynamicRoot<Rootable![Node<'_>]>;
/// handle for a stashed NON-TRACING object (a leaf)
pub type HL = DynamicRoot<Rootable![RefLock<Leaf>]>;

#[derive(Clone, Copy)]
pub enum Obj<'gc> {
    Node(NodeGc<'gc>),
    Leaf(LeafGc<'gc>),
    Cell(CellRef<'gc>),
}
impl<'gc> Obj<'gc> {
    pub fn node(self) -> NodeGc<'gc> {
        match self {
            Obj::Node(n) => n,
            _ => panic!("harness: not a node"),
        }
    }
    pub fn cell(self) -> CellRef<'gc> {
        match self {
            Obj::Cell(c) => c,
            _ => panic!("harness: not a cell"),
        }
    }
}

// ------------------------------------------------------------------------------------------------
// shadow model

pub const KNODE: u8 = 0;
pub const KLEAF: u8 = 1;
pub const KCELL_L: u8 = 2;
pub const KCELL_R: u8 = 3;
pub const KCELL_O: u8 = 4;
pub const KCELL_W: u8 = 5;
pub const KCELL_WR: u8 = 6;

#[derive(Clone, Debug)]
pub struct SObj {
    pub kind: u8,
    pub s: [Option<u8>; 2],
    pub w: Option<u8>,
    pub leaf: Option<u8>,
    pub wl: Option<u8>,
    pub cell: Option<u8>,
    pub dropped: bool,
    pub freed: bool,
    /// allocated while the arena reported Sweeping, in the sweep that is still running
    pub born_sweeping: bool,
    /// holds handle `held` of the other arena (product scope)
    pub held: Option<u8>,
}

#[derive(Clone, Debug, Default)]
pub struct Shadow {
    pub objs: Vec<SObj>,
    pub roots: [Option<u8>; 2],
    /// live handles: (target id, set index, slot index)
    pub handles: [Option<(u8, u8, u8)>; 3],
    /// live handles of stashed leaves: (leaf id, set index)
    pub lhandles: [Option<(u8, u8)>; 2],
}

impl Shadow {
    pub fn strong_children(&self, i: u8) -> impl Iterator<Item = u8> + '_ {
        let o = &self.objs[i as usize];
        o.s.iter().flatten().copied().chain(o.leaf).chain(o.cell)
    }
    pub fn closure(&self, from: &[u8]) -> Vec<u8> {
        let mut seen = vec![false; self.objs.len()];
        let mut st: Vec<u8> = from.to_vec();
        while let Some(i) = st.pop() {
            if !seen[i as usize] {
                seen[i as usize] = true;
                st.extend(self.strong_children(i));
            }
        }
        (0..self.objs.len() as u8).filter(|i| seen[*i as usize]).collect()
    }
    pub fn root_ids(&self) -> Vec<u8> {
        self.roots.iter().flatten().copied().chain(self.handles.iter().flatten().map(|h| h.0)).chain(self.lhandles.iter().flatten().map(|h| h.0)).collect()
    }
    pub fn reach(&self) -> Vec<u8> {
        self.closure(&self.root_ids())
    }
    pub fn reach_mask(&self) -> Vec<bool> {
        let mut m = vec![false; self.objs.len()];
        for i in self.reach() {
            m[i as usize] = true;
        }
        m
    }
}

// ------------------------------------------------------------------------------------------------
// coverage counters

#[derive(Clone, Debug, Default)]
pub struct Cov {
    /// (phase 0..4) x (colour 0..4) x live -> seen
    pub cells: [[[u64; 2]; 4]; 4],
    pub named: std::collections::BTreeMap<&'static str, u64>,
}
impl Cov {
    pub fn bump(&mut self, k: &'static str) {
        *self.named.entry(k).or_insert(0) += 1;
    }
    pub fn add(&mut self, k: &'static str, n: u64) {
        *self.named.entry(k).or_insert(0) += n;
    }
    pub fn merge(&mut self, o: &Cov) {
        for p in 0..4 {
            for c in 0..4 {
                for l in 0..2 {
                    self.cells[p][c][l] += o.cells[p][c][l];
                }
            }
        }
        for (k, v) in &o.named {
            *self.named.entry(k).or_insert(0) += v;
        }
    }
    pub fn cells_seen(&self) -> usize {
        self.cells.iter().flatten().flatten().filter(|v| **v > 0).count()
    }
}

pub fn ph(p: CollectionPhase) -> u8 {
    match p {
        CollectionPhase::Sleeping => 0,
        CollectionPhase::Marking => 1,
        CollectionPhase::Marked => 2,
        CollectionPhase::Sweeping => 3,
    }
}
pub const PHN: [&str; 4] = ["Sleeping", "Marking", "Marked", "Sweeping"];

// ------------------------------------------------------------------------------------------------
// the world

/// The pacing every explored arena is given explicitly (the values of `Pacing::DEFAULT` of the pinned
/// tree, spelled out so that the monitors do not depend on what DEFAULT is).
pub const PACING: gc_arena::metrics::Pacing =
    gc_arena::metrics::Pacing { sleep_factor: 0.5, min_sleep: 256, mark_factor: 0.1, trace_factor: 0.4, keep_factor: 0.05, drop_factor: 0.2, free_factor: 0.3 };
pub const EPS: f64 = 0.01;
pub const HUGE: f64 = 1.0e5;
pub const SNAP_CAP: usize = 64;

pub struct World {
    pub arena: Option<A>,
    pub metrics: Metrics,
    pub sc: Scope,
    pub sh: Shadow,
    /// id base (product scope: second arena uses 128)
    pub base: u32,
    /// value address -> local id
    pub addrs: Vec<(usize, u8)>,
    pub set_addrs: [usize; 2],
    pub hs: [Option<H>; 3],
    pub hl: [Option<HL>; 2],
    /// handle lives inside a heap value of the other arena (product scope): where it is
    pub lent: [Option<*const H>; 3],
    /// product scope plumbing for `Lend`: the handle coming in / where it ended up
    /// heap snapshot taken by `check()` BEFORE its read-only queries (upgrade / is_dropped ...): the state's identity must not
    /// depend on side effects those queries may have in a defective library (they only run on the last step of a replay)
    pub snap_cache: RefCell<Option<gc_arena::verif::HeapSnap>>,
    /// objects that were undestructed and strongly unreachable when the running cycle woke, and have stayed unreachable since
    pub wake_garbage: Vec<u8>,
    pub wake_known: bool,
    pub incoming: Option<H>,
    pub lent_out: Option<*const H>,
    // ---- per-cycle bookkeeping for C07 ----
    pub mutated: bool,
    pub resurrected: Vec<u8>,
    pub cycle_prot: Vec<u8>,
    // ---- log cursors ----
    pub drops_seen: usize,
    pub frees_seen: usize,
    /// run the expensive oracles (off while replaying an already verified prefix)
    pub verify: bool,
    pub cov: Cov,
    /// barrier / resurrect calls made by the current callback that may legitimately earn mark credit
    pub credit_calls: u32,
    pub pacing_idx: u8,
    pub last_fin_ran: bool,
    /// allocations the arena made for itself at construction that the harness did not register (none today)
    pub count_offset: usize,
}

impl World {
    /// The live handle `hi`, wherever it is owned (by the harness, or by a heap value of the other arena).
    pub fn href(&self, hi: usize) -> Option<&H> {
        match (&self.hs[hi], self.lent[hi]) {
            (Some(h), _) => Some(h),
            // SAFETY (harness): the pointer is into a Node of the other arena that the shadow says is
            // undestructed; the product clears `lent` as soon as the holder's destructor is logged, and
            // the tracking allocator quarantines released blocks for the rest of the execution.
            (None, Some(p)) => Some(unsafe { &*p }),
            (None, None) => None,
        }
    }
    pub fn new(sc: Scope, base: u32) -> World {
        DYNWEAK.with(|d| d.set(sc.dynweak));
        let nsets = sc.sets as usize;
        let mut set_addrs = [0usize; 2];
        let arena: A = talloc::subject(|| {
            Arena::new(|mc| {
                let mut sets = [None, None];
                for (i, slot) in sets.iter_mut().enumerate().take(nsets) {
                    let s = DynamicRootSet::new(mc);
                    set_addrs[i] = s.verif_addr();
                    *slot = Some(s);
                }
                Root { r: [None, None], sets, serial: new_root_serial() }
            })
        });
        for (i, a) in set_addrs.iter().enumerate().take(nsets) {
            talloc::register_gc(*a, base + 120 + i as u32);
        }
        let metrics = arena.metrics().clone();
        metrics.set_pacing(if sc.stw { gc_arena::metrics::Pacing::STOP_THE_WORLD } else if sc.zero_sleep { gc_arena::metrics::Pacing { sleep_factor: 0.0, min_sleep: 0, ..PACING } } else { PACING });
        let count_offset = metrics.total_gc_count().saturating_sub(nsets);
        World {
            arena: Some(arena),
            metrics,
            sc,
            sh: Shadow::default(),
            base,
            addrs: Vec::new(),
            set_addrs,
            hs: [None, None, None],
            hl: [None, None],
            lent: [None, None, None],
            snap_cache: RefCell::new(None),
            wake_garbage: vec![],
            wake_known: false,
            incoming: None,
            lent_out: None,
            mutated: false,
            resurrected: vec![],
            cycle_prot: vec![],
            drops_seen: drops_len(),
            frees_seen: talloc::gc_frees_len(),
            verify: true,
            cov: Cov::default(),
            credit_calls: 0,
            pacing_idx: 0,
            last_fin_ran: false,
            count_offset,
        }
    }

    pub fn arena(&self) -> &A {
        self.arena.as_ref().expect("arena alive")
    }
    pub fn arena_mut(&mut self) -> &mut A {
        self.arena.as_mut().expect("arena alive")
    }
    pub fn phase(&self) -> CollectionPhase {
        self.arena().collection_phase()
    }
    pub fn id_of_addr(&self, a: usize) -> Option<u8> {
        self.addrs.iter().rev().find(|e| e.0 == a).map(|e| e.1)
    }

    /// New shadow object; returns its local id.
    pub fn alloc_id(&mut self, kind: u8) -> u8 {
        self.sh.objs.push(SObj { kind, s: [None; 2], w: None, leaf: None, wl: None, cell: None, dropped: false, freed: false, born_sweeping: false, held: None });
        assert!(self.sh.objs.len() < 120, "harness: id space exhausted");
        (self.sh.objs.len() - 1) as u8
    }
    pub fn register(&mut self, id: u8, addr: usize) {
        self.addrs.push((addr, id));
        talloc::register_gc(addr, self.base + id as u32);
    }

    /// Number of harness-allocated blocks still present (allocator view, not the hook).
    pub fn present(&self) -> usize {
        self.sh.objs.iter().filter(|o| !o.freed).count()
    }
    pub fn room(&self) -> bool {
        self.present() < self.sc.n
    }

    /// Bring the shadow's dropped/freed flags up to date with the drop log and allocator log.
    pub fn sync_logs(&mut self) -> VResult {
        let lo = self.base;
        let hi = self.base + 120;
        for gid in drops_from(self.drops_seen) {
            if gid >= lo && gid < hi {
                let o = &mut self.sh.objs[(gid - lo) as usize];
                if o.dropped {
                    self.drops_seen = drops_len();
                    viol!("once.double_drop", "object {} destructed a second time", gid - lo);
                }
                o.dropped = true;
            }
        }
        self.drops_seen = drops_len();
        let frees = talloc::gc_frees();
        for gid in &frees[self.frees_seen.min(frees.len())..] {
            if *gid >= lo && *gid < hi {
                let o = &mut self.sh.objs[(*gid - lo) as usize];
                o.freed = true;
                if o.kind >= KCELL_L {
                    o.dropped = true; // token-less objects: destruction is not separately observable
                }
            }
        }
        self.frees_seen = frees.len();
        if talloc::errors_len() > 0 {
            let e = talloc::take_errors();
            viol!("alloc.error", "{}", e.join("; "));
        }
        if take_root_double_drops() > 0 {
            // (reported before the dangling count: a second destruction of the root usually finds the heap gone)
            let _ = take_root_drop_dangling();
            viol!("once.double_drop", "the root value was destructed a second time");
        }
        let n = take_root_drop_dangling();
        if n > 0 {
            viol!("rootdrop.dangling", "when the root value was dropped, {n} of the allocations it points to had already been released (a destructor of the root would read freed memory)");
        }
        Ok(())
    }

    /// Safety oracle, first half: nothing strongly reachable in the shadow has been destructed or
    /// released. Must pass before any real pointer is dereferenced.
    pub fn check_logs(&mut self) -> VResult {
        self.sync_logs()?;
        for r in self.sh.reach() {
            let o = &self.sh.objs[r as usize];
            if o.dropped {
                viol!("safe.dropped", "strongly reachable object {r} (kind {}) was destructed", o.kind);
            }
            if o.freed {
                viol!("safe.freed", "memory of strongly reachable object {r} (kind {}) was released", o.kind);
            }
        }
        Ok(())
    }

    /// Lock-step traversal of the real graph and the shadow. Returns the located objects by id.
    pub fn locate<'gc>(&self, root: &Root<'gc>) -> VResult<Vec<Option<Obj<'gc>>>> {
        let mut out: Vec<Option<Obj<'gc>>> = vec![None; self.sh.objs.len()];
        let mut st: Vec<(u8, Obj<'gc>)> = Vec::new();
        for (i, r) in self.sh.roots.iter().enumerate() {
            match (r, root.r[i]) {
                (None, None) => {}
                (Some(id), Some(g)) => st.push((*id, Obj::Node(g))),
                _ => viol!("safe.traversal", "root slot {i}: shadow {:?} real {}", r, root.r[i].is_some()),
            }
        }
        for (hi, h) in self.sh.handles.iter().enumerate() {
            if let Some((t, set, _)) = h {
                let hr = self.href(hi).expect("handle");
                let set = root.sets[*set as usize].expect("set");
                match set.try_fetch(hr) {
                    Ok(g) => st.push((*t, Obj::Node(g))),
                    Err(_) => viol!("c14.fetch_own", "try_fetch of live handle {hi} on its own set failed"),
                }
            }
        }
        for (hi, h) in self.sh.lhandles.iter().enumerate() {
            if let Some((t, set)) = h {
                let hr = self.hl[hi].as_ref().expect("leaf handle");
                let set = root.sets[*set as usize].expect("set");
                match set.try_fetch(hr) {
                    Ok(g) => st.push((*t, Obj::Leaf(g))),
                    Err(_) => viol!("c14.fetch_own", "try_fetch of live leaf handle {hi} on its own set failed"),
                }
            }
        }
        while let Some((id, o)) = st.pop() {
            let so = &self.sh.objs[id as usize];
            if let Some(prev) = out[id as usize] {
                // identity must agree
                let same = match (prev, o) {
                    (Obj::Node(a), Obj::Node(b)) => Gc::ptr_eq(a, b),
                    (Obj::Leaf(a), Obj::Leaf(b)) => Gc::ptr_eq(a, b),
                    (Obj::Cell(a), Obj::Cell(b)) => a.addr() == b.addr(),
                    _ => false,
                };
                if !same {
                    viol!("safe.traversal", "object {id} reached through two different pointers");
                }
                continue;
            }
            out[id as usize] = Some(o);
            match o {
                Obj::Node(g) => {
                    if so.kind != KNODE {
                        viol!("safe.traversal", "object {id}: kind mismatch");
                    }
                    if g.id != self.base + id as u32 || g.pat != pattern(self.base + id as u32) {
                        viol!("safe.traversal", "object {id} reads id {} pattern {:#x}: not the value that was stored", g.id, g.pat);
                    }
                    if self.id_of_addr(Gc::as_ptr(g) as usize) != Some(id) {
                        viol!("safe.traversal", "object {id} found at an address that was not the one allocated for it");
                    }
                    for k in 0..2 {
                        match (so.s[k], g.s[k].get()) {
                            (None, None) => {}
                            (Some(c), Some(cg)) => st.push((c, Obj::Node(cg))),
                            (a, b) => viol!("safe.traversal", "object {id} slot {k}: shadow {:?} real {}", a, b.is_some()),
                        }
                    }
                    match (so.leaf, g.leaf.get()) {
                        (None, None) => {}
                        (Some(c), Some(cg)) => st.push((c, Obj::Leaf(cg))),
                        (a, b) => viol!("safe.traversal", "object {id} leaf: shadow {:?} real {}", a, b.is_some()),
                    }
                    match (so.cell, g.cell.get()) {
                        (None, None) => {}
                        (Some(c), Some(cg)) => st.push((c, Obj::Cell(cg))),
                        (a, b) => viol!("safe.traversal", "object {id} cell: shadow {:?} real {}", a, b.is_some()),
                    }
                    match (so.w, g.wk()) {
                        (None, None) => {}
                        (Some(t), Some(wg)) => {
                            if self.id_of_addr(wg.as_ptr() as usize) != Some(t) {
                                viol!("safe.traversal", "object {id} weak slot does not refer to object {t}");
                            }
                        }
                        (a, b) => viol!("safe.traversal", "object {id} weak: shadow {:?} real {}", a, b.is_some()),
                    }
                    match (so.wl, g.wl.get()) {
                        (None, None) => {}
                        (Some(t), Some(wg)) => {
                            if self.id_of_addr(wg.as_ptr() as *const () as usize) != Some(t) {
                                viol!("safe.traversal", "object {id} weak-leaf slot does not refer to object {t}");
                            }
                        }
                        (a, b) => viol!("safe.traversal", "object {id} weak-leaf: shadow {:?} real {}", a, b.is_some()),
                    }
                }
                Obj::Leaf(g) => {
                    if so.kind != KLEAF {
                        viol!("safe.traversal", "object {id}: kind mismatch (leaf)");
                    }
                    let l = g.borrow();
                    if l.id != self.base + id as u32 || l.pat != pattern(self.base + id as u32) {
                        viol!("safe.traversal", "leaf {id} reads id {} pattern {:#x}", l.id, l.pat);
                    }
                }
                Obj::Cell(c) => {
                    let want = match c {
                        CellRef::L(_) => KCELL_L,
                        CellRef::R(_) => KCELL_R,
                        CellRef::O(_) => KCELL_O,
                        CellRef::W(_) => KCELL_W,
                        CellRef::WR(_) => KCELL_WR,
                    };
                    if so.kind != want {
                        viol!("safe.traversal", "object {id}: kind mismatch (cell)");
                    }
                    if self.id_of_addr(c.addr()) != Some(id) {
                        viol!("safe.traversal", "cell {id} found at a foreign address");
                    }
                    match (so.s[0], c.child()) {
                        (None, None) => {}
                        (Some(ch), Some(cg)) => st.push((ch, Obj::Node(cg))),
                        (a, b) => viol!("safe.traversal", "cell {id} content: shadow {:?} real {}", a, b.is_some()),
                    }
                    if so.w.is_some() != c.weak_child().is_some() {
                        viol!("safe.traversal", "cell {id} weak content: shadow {:?} real {}", so.w, c.weak_child().is_some());
                    }
                }
            }
        }
        Ok(out)
    }

    /// Full state check after an operation: logs, traversal, weak-pointer monitors (C05), metrics
    /// monitors (C10), dynamic-root monitors (C14).
    pub fn check(&mut self) -> VResult {
        self.check_logs()?;
        if !self.verify || self.arena.is_none() {
            return Ok(());
        }
        *self.snap_cache.borrow_mut() = Some(self.arena().verif_heap_snapshot(SNAP_CAP));
        let reach = self.sh.reach_mask();
        let phase = self.phase();
        // C05: before a weak query the target block must still be allocated
        for (i, o) in self.sh.objs.iter().enumerate() {
            if reach[i] {
                for t in o.w.into_iter().chain(o.wl) {
                    if self.sh.objs[t as usize].freed {
                        viol!("c05.weak_block_released", "reachable object {i} holds a weak pointer to object {t} whose block was released");
                    }
                }
            }
        }
        let this: &World = self;
        let mut up_ok = [0u64; 4];
        let mut up_no = [0u64; 4];
        let (d0, f0) = (drops_len(), talloc::gc_frees_len());
        let r: VResult = this.arena().mutate(|mc, root| -> VResult {
            let m = this.locate(root)?;
            for (i, o) in this.sh.objs.iter().enumerate() {
                if !reach[i] || o.kind != KNODE {
                    continue;
                }
                if let Some(t) = o.wl {
                    let w = m[i].unwrap().node().wl.get().unwrap();
                    let td = this.sh.objs[t as usize].dropped;
                    if w.is_dropped() != td {
                        viol!("c05.is_dropped", "is_dropped() = {} for leaf target {t} whose destructor has{} run", w.is_dropped(), if td { "" } else { " not" });
                    }
                    match w.upgrade(mc) {
                        Some(g) => {
                            up_ok[ph(phase) as usize] += 1;
                            if td {
                                viol!("c05.upgrade_dropped", "upgrade returned a pointer to destructed leaf {t}");
                            }
                            if g.borrow().id != this.base + t as u32 {
                                viol!("c05.upgrade_identity", "upgrade of weak to leaf {t} reads another value");
                            }
                        }
                        None => {
                            up_no[ph(phase) as usize] += 1;
                            if reach[t as usize] {
                                viol!("c05.upgrade_reachable_failed", "upgrade failed for strongly reachable leaf {t} in phase {:?}", phase);
                            }
                            if !td && phase != CollectionPhase::Sweeping {
                                viol!("c05.upgrade_spurious", "upgrade failed for undestructed leaf {t} in phase {:?}", phase);
                            }
                        }
                    }
                }
                let Some(t) = o.w else { continue };
                let w = m[i].unwrap().node().wk().unwrap();
                let td = this.sh.objs[t as usize].dropped;
                if w.is_dropped() != td {
                    viol!("c05.is_dropped", "is_dropped() = {} for target {t} whose destructor has{} run", w.is_dropped(), if td { "" } else { " not" });
                }
                // formatting is a query too
                FMT_RELEASED.with(|c| c.set(0));
                let text = format!("{:?}", w);
                if FMT_RELEASED.with(|c| c.get()) > 0 {
                    viol!("c05.query_touched_released", "formatting the weak pointer to {t} ({:?}) read a value in a block that was already released: {text}", phase);
                }
                match w.upgrade(mc) {
                    Some(g) => {
                        up_ok[ph(phase) as usize] += 1;
                        if td {
                            viol!("c05.upgrade_dropped", "upgrade returned a pointer to destructed object {t}");
                        }
                        if g.id != this.base + t as u32 {
                            viol!("c05.upgrade_identity", "upgrade of weak to {t} reads id {}", g.id);
                        }
                    }
                    None => {
                        up_no[ph(phase) as usize] += 1;
                        if reach[t as usize] {
                            viol!("c05.upgrade_reachable_failed", "upgrade failed for strongly reachable object {t} in phase {:?}", phase);
                        }
                        if !td && phase != CollectionPhase::Sweeping {
                            viol!("c05.upgrade_spurious", "upgrade failed for undestructed object {t} in phase {:?}", phase);
                        }
                    }
                }
            }
            Ok(())
        });
        r?;
        if drops_len() != d0 || talloc::gc_frees_len() != f0 {
            viol!("c03.destructed_in_callback", "a value was destructed or released inside a mutate callback that only queried weak pointers (is_dropped / upgrade)");
        }
        for p in 0..4 {
            if up_ok[p] > 0 {
                self.cov.add(["upgrade_ok@Sleeping", "upgrade_ok@Marking", "upgrade_ok@Marked", "upgrade_ok@Sweeping"][p], up_ok[p]);
            }
            if up_no[p] > 0 {
                self.cov.add(["upgrade_refused@Sleeping", "upgrade_refused@Marking", "upgrade_refused@Marked", "upgrade_refused@Sweeping"][p], up_no[p]);
            }
        }
        // C10 state monitors
        let d = self.metrics.allocation_debt();
        if !(d.is_finite() && d >= 0.0) {
            viol!("c10.debt_sign", "allocation_debt() = {d}");
        }
        // (the reported debt is a function of the arena's state: an adjustment by exactly zero leaves it where it was,
        // positive or not - a stale cached value shows here)
        self.metrics.adjust_debt(0.0);
        let d_again = self.metrics.allocation_debt();
        if d_again != d {
            viol!("c10.adjust_exact", "adjust_debt(0.0) moved allocation_debt() from {d} to {d_again}");
        }
        let live = talloc::gc_live_count_range(self.base, self.base + 128);
        let cnt = self.metrics.total_gc_count();
        if cnt != live + self.count_offset {
            viol!("c10.count", "total_gc_count() = {cnt} but {} Gc allocations are outstanding", live + self.count_offset);
        }
        if cnt == 0 && d != 0.0 {
            viol!("c10.debt_empty", "allocation_debt() = {d} with no allocation");
        }
        // coverage of (phase, colour, live) cells
        let snap = self.arena().verif_heap_snapshot(SNAP_CAP);
        if snap.truncated {
            viol!("safe.list_corrupt", "all-objects list longer than {SNAP_CAP} entries (cyclic?)");
        }
        for o in &snap.all {
            self.cov.cells[snap.phase as usize & 3][o.color as usize & 3][o.live as usize] += 1;
        }
        Ok(())
    }

    /// Canonical form (DESIGN.md 3.6).
    pub fn canon(&self, v: &mut Vec<u8>) {
        let Some(arena) = self.arena.as_ref() else {
            v.push(0xEE);
            for (h, l) in self.sh.handles.iter().zip(&self.lent) {
                v.push(h.is_some() as u8 | (l.is_some() as u8) << 1);
            }
            return;
        };
        let snap = self.snap_cache.borrow().clone().unwrap_or_else(|| arena.verif_heap_snapshot(SNAP_CAP));
        let idof = |a: usize| -> Option<u8> {
            if let Some(i) = self.id_of_addr(a) {
                return Some(i);
            }
            for (k, sa) in self.set_addrs.iter().enumerate() {
                if *sa == a && k < self.sc.sets as usize {
                    return Some(120 + k as u8);
                }
            }
            None
        };
        let mut pos = [0u8; 128];
        for (i, o) in snap.all.iter().enumerate() {
            if let Some(id) = idof(o.addr) {
                pos[id as usize] = i as u8 + 1;
            }
        }
        let p = |x: Option<u8>| -> u8 {
            match x {
                None => 0,
                Some(i) => {
                    if pos[i as usize] == 0 {
                        255
                    } else {
                        pos[i as usize]
                    }
                }
            }
        };
        let pa = |x: Option<usize>| -> u8 {
            match x {
                None => 0,
                Some(a) => p(idof(a).or(Some(127))),
            }
        };
        v.push(snap.phase);
        v.push(snap.root_needs_trace as u8);
        v.push(snap.all.len() as u8);
        for o in &snap.all {
            let flags = o.color | (o.live as u8) << 2 | (o.needs_trace as u8) << 3;
            match idof(o.addr) {
                Some(id) if id < 120 => {
                    let so = &self.sh.objs[id as usize];
                    v.extend([flags, so.kind, p(so.s[0]), p(so.s[1]), p(so.w), p(so.leaf), p(so.wl), p(so.cell)]);
                    if let Some(h) = so.held {
                        v.extend([0xB0, h]);
                    }
                }
                Some(id) => v.extend([flags, 0x70 + (id - 120)]),
                None => v.extend([flags, 0x7f]),
            }
        }
        v.extend([p(self.sh.roots[0]), p(self.sh.roots[1]), pa(snap.sweep), pa(snap.sweep_prev)]);
        v.push(snap.gray.len() as u8);
        for g in &snap.gray {
            v.push(pa(Some(*g)));
        }
        v.push(snap.gray_again.len() as u8);
        for g in &snap.gray_again {
            v.push(pa(Some(*g)));
        }
        if self.sc.sets > 0 {
            for h in &self.sh.handles {
                match h {
                    None => v.push(0),
                    Some((t, set, slot)) => v.extend([1, p(Some(*t)), *set, *slot]),
                }
            }
            for l in &self.lent {
                v.push(l.is_some() as u8);
            }
            for h in &self.sh.lhandles {
                match h {
                    None => v.push(0),
                    Some((t, set)) => v.extend([1, p(Some(*t)), *set]),
                }
            }
            arena.mutate(|_, root| {
                for k in 0..self.sc.sets as usize {
                    let (slots, free) = root.sets[k].unwrap().verif_slots();
                    v.push(slots.len() as u8);
                    for s in slots {
                        match s {
                            Ok((addr, rc)) => v.extend([1, pa(Some(addr)), rc as u8]),
                            Err(next) => v.extend([2, next.min(254) as u8]),
                        }
                    }
                    v.push(free.min(254) as u8);
                }
            });
        }
        if self.sc.fin {
            v.push(self.mutated as u8);
            v.push(self.resurrected.len() as u8);
            for r in &self.resurrected {
                v.push(p(Some(*r)));
            }
            v.push(self.cycle_prot.len() as u8);
            for r in &self.cycle_prot {
                v.push(p(Some(*r)));
            }
        }
        if self.sc.exact_cycle {
            v.push(self.wake_known as u8);
            v.push(self.wake_garbage.len() as u8);
            for g in &self.wake_garbage {
                v.push(p(Some(*g)));
            }
        }
        if self.sc.born_canon {
            for o in &snap.all {
                if let Some(id) = idof(o.addr) {
                    if id < 120 {
                        v.push(self.sh.objs[id as usize].born_sweeping as u8);
                    }
                }
            }
        }
        if self.sc.metrics_canon {
            let (c, f) = self.metrics.verif_counters();
            for x in c {
                v.push(x.min(255) as u8);
                if x > 255 {
                    v.extend(x.to_le_bytes());
                }
            }
            if self.sc.natural {
                for x in f {
                    v.extend(x.to_bits().to_le_bytes());
                }
                v.push(self.pacing_idx);
            }
        }
    }
}

/// Executed at the end of every execution: drop the world, close the allocator window.
pub fn fresh_window() {
    // (per-thread observations of the previous execution must not leak into this one)
    let _ = take_root_drop_dangling();
    let _ = take_root_double_drops();
    drops_clear();
    TRACE_CALLS.with(|t| t.set(0));
    talloc::begin_window();
}

pub fn close_window() -> talloc::WindowReport {
    let r = talloc::end_window();
    drops_clear();
    r
}

impl From<std::convert::Infallible> for Viol {
    fn from(x: std::convert::Infallible) -> Viol {
        match x {}
    }
}
