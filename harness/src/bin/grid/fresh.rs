//! C20, arena lifecycles: a NEWLY created arena behaves the same whatever arenas lived, were
//! configured, collected and died on the thread before it (or are still alive beside it).
//!
//! The product exploration keeps both arenas alive from the start (plus DropArena); what it cannot
//! reach is state that survives an arena's death (a pool, a cache, a thread-local) and leaks into
//! the next arena. Every sequence of up to 2 earlier lifecycles x (pacing, outstanding Metrics clone,
//! phase at death / still alive) runs on a fresh thread; then a fixed script on a new arena must
//! produce exactly the observations it produces on a pristine thread.

use gc_arena::{Arena, Gc, Rootable, arena::CollectionPhase as P, metrics::Pacing};
use gcv::json::J;

use crate::GridOut;

type A = Arena<Rootable![Vec<Gc<'_, u64>>]>;

fn ph(p: P) -> u64 {
    match p {
        P::Sleeping => 0,
        P::Marking => 1,
        P::Marked => 2,
        P::Sweeping => 3,
    }
}

/// Observations of a fixed script on a new arena (default pacing: the script never configures it).
fn fingerprint() -> Vec<u64> {
    let mut out = vec![];
    let mut arena: A = Arena::new(|_| vec![]);
    let m = arena.metrics().clone();
    let mut obs = |arena: &A, out: &mut Vec<u64>| {
        out.push(m.allocation_debt().to_bits());
        out.push(m.total_gc_count() as u64);
        out.push(ph(arena.collection_phase()));
    };
    obs(&arena, &mut out);
    for i in 0..6 {
        arena.mutate_root(|mc, r| r.push(Gc::new(mc, i)));
        obs(&arena, &mut out);
    }
    arena.collect_debt();
    obs(&arena, &mut out);
    for round in 0..4 {
        for i in 0..100u64 {
            arena.mutate(|mc, _| {
                Gc::new(mc, i);
            });
        }
        obs(&arena, &mut out);
        arena.collect_debt();
        obs(&arena, &mut out);
        if round == 2 {
            let _ = arena.mark_debt();
            obs(&arena, &mut out);
        }
    }
    m.adjust_debt(3.0);
    obs(&arena, &mut out);
    arena.cycle_debt();
    obs(&arena, &mut out);
    arena.finish_cycle();
    obs(&arena, &mut out);
    arena.finish_cycle();
    obs(&arena, &mut out);
    drop(arena);
    out.push(m.total_gc_count() as u64);
    out
}

const PACINGS: usize = 3;
fn pacing(i: usize) -> Pacing {
    match i {
        0 => Pacing::DEFAULT,
        1 => Pacing::STOP_THE_WORLD,
        _ => Pacing { sleep_factor: 3.0, min_sleep: 1_000_000, mark_factor: 0.3, trace_factor: 0.3, keep_factor: 0.3, drop_factor: 0.45, free_factor: 0.45 },
    }
}

#[derive(Clone, Copy, Debug)]
struct Life {
    pacing: usize,
    keep_clone: bool,
    /// 0 dropped asleep, 1 dropped while Marking, 2 dropped Marked, 3 dropped Sweeping, 4 still alive (Marking) while the new arena runs
    end: u8,
}

fn live(l: Life) -> (Option<A>, Option<gc_arena::metrics::Metrics>) {
    let mut a: A = Arena::new(|_| vec![]);
    let keep = if l.keep_clone { Some(a.metrics().clone()) } else { None };
    a.metrics().set_pacing(pacing(l.pacing));
    for i in 0..4 {
        a.mutate_root(|mc, r| r.push(Gc::new(mc, i)));
        a.mutate(|mc, _| {
            Gc::new(mc, 100 + i);
        });
    }
    a.metrics().adjust_debt(2.5);
    match l.end {
        0 => {}
        1 | 4 => {
            let m = a.metrics();
            m.adjust_debt(1.0e6);
            let d = m.allocation_debt();
            m.adjust_debt(0.01 - d);
            let _ = a.mark_debt();
        }
        2 => {
            let _ = a.finish_marking();
        }
        _ => {
            if let Some(m) = a.finish_marking() {
                m.start_sweeping();
            }
        }
    }
    if l.end == 4 { (Some(a), keep) } else { (None, keep) }
}

fn lives() -> Vec<Life> {
    let mut v = vec![];
    for pacing in 0..PACINGS {
        for keep_clone in [false, true] {
            for end in 0..5u8 {
                v.push(Life { pacing, keep_clone, end });
            }
        }
    }
    v
}

fn name(seq: &[Life]) -> String {
    let parts: Vec<String> = seq.iter().map(|l| format!("p{}{}e{}", l.pacing, if l.keep_clone { "k" } else { "n" }, l.end)).collect();
    format!("fresh/[{}]", parts.join(","))
}

fn run_case(seq: Vec<Life>, reference: Vec<u64>) -> Result<(), String> {
    let r = std::thread::spawn(move || {
        let mut alive = vec![];
        for l in &seq {
            alive.push(live(*l));
        }
        let f = fingerprint();
        drop(alive);
        // and once more after everything before it is gone
        let g = fingerprint();
        (f, g)
    })
    .join();
    match r {
        Err(_) => Err("panic".into()),
        Ok((f, g)) => {
            for (what, x) in [("beside / after the earlier arenas", &f), ("after every earlier arena is gone", &g)] {
                if *x != reference {
                    let i = x.iter().zip(&reference).position(|(a, b)| a != b).unwrap_or(0);
                    return Err(format!(
                        "a new arena created {what} behaves differently from a new arena on a pristine thread: observation {i} (triples of debt bits / Gc count / phase) is {} instead of {} (as f64: {} vs {})",
                        x[i],
                        reference[i],
                        f64::from_bits(x[i]),
                        f64::from_bits(reference[i])
                    ));
                }
            }
            Ok(())
        }
    }
}

pub fn run(_thorough: bool, only: Option<&str>) -> GridOut {
    let reference = std::thread::spawn(fingerprint).join().expect("reference fingerprint");
    let again = std::thread::spawn(fingerprint).join().expect("reference fingerprint");
    let mut viol = vec![];
    if reference != again {
        viol.push(("fresh/reference".to_string(), "the script is not deterministic on pristine threads".to_string()));
    }
    let ls = lives();
    let mut seqs: Vec<Vec<Life>> = vec![vec![]];
    for a in &ls {
        seqs.push(vec![*a]);
        for b in &ls {
            seqs.push(vec![*a, *b]);
        }
    }
    let names: Vec<String> = seqs.iter().map(|s| name(s)).collect();
    let mut n = 0u64;
    // (sequential: each case owns a thread; the cases are tiny)
    for (s, nm) in seqs.into_iter().zip(&names) {
        if only.map(|o| o != nm).unwrap_or(false) {
            continue;
        }
        n += 1;
        if let Err(e) = run_case(s, reference.clone()) {
            viol.push((nm.clone(), e));
        }
    }
    GridOut {
        evaluations: n,
        nontrivial: n.saturating_sub(1),
        rule: "every sequence of <= 2 earlier arena lifecycles on a fresh thread, each lifecycle = pacing {default, stop-the-world, long-sleep} x Metrics clone outstanding {no, yes} x fate {dropped Sleeping, Marking, Marked, Sweeping, still alive mid-marking}; then a fixed 40-observation script (allocation, collect_debt, mark_debt, cycle_debt, adjust_debt, finish_cycle, drop: debt bits, Gc count, phase after each) on a NEW arena, once beside/after them and once after all are gone, must equal the observations on a pristine thread".into(),
        samples: names.iter().step_by((names.len() / 6).max(1)).take(6).map(|s| J::Str(s.clone())).collect(),
        violations: viol.iter().map(|(c, e)| J::obj().with("case", c.as_str()).with("message", e.as_str())).collect(),
        extra: J::obj().with("exhaustive", only.is_none()),
    }
}
