//! C17 — allocation layout integrity grid (sized values of every (size, align) of the table,
//! slices, str, header+slice, per-value metadata types, per-type metadata).

use std::cell::{Cell, RefCell};
use std::marker::PhantomData;
use std::sync::Mutex;
use std::sync::atomic::{AtomicUsize, Ordering};

use gc_arena::{
    Arena, Collect, Gc, GcBuilder, GcSliceBuilder, GcSliceWithHeaderBuilder, Rootable,
    collect::Trace,
    meta::{AllocMeta, PtrMeta, TypeMeta, UnitTypeMeta},
    slice::{GcSlice, GcStr, GcSliceWithHeader},
};
use gcv::{json::J, talloc};

use crate::GridOut;

thread_local! {
    /// (size tag, align tag) of every payload destructor run
    pub static DLOG: RefCell<Vec<(usize, usize)>> = const { RefCell::new(Vec::new()) };
    static META_SEEN: RefCell<Vec<u128>> = const { RefCell::new(Vec::new()) };
}
pub fn dlog_clear() {
    talloc::bypass(|| DLOG.with(|d| d.borrow_mut().clear()));
}
pub fn dlog_count(l: usize, a: usize) -> usize {
    DLOG.with(|d| d.borrow().iter().filter(|e| **e == (l, a)).count())
}
pub fn dlog_len() -> usize {
    DLOG.with(|d| d.borrow().len())
}

pub trait Payload: Sized + 'static + for<'gc> Collect<'gc> {
    const L: usize;
    const A: usize;
    /// does the payload record its destruction?
    const DROPS: bool = true;
    fn new() -> Self;
}

macro_rules! aligned {
    ($($name:ident = $a:literal),*) => {$(
        #[repr(align($a))]
        pub struct $name<const L: usize>(pub [Cell<u8>; L]);
        impl<const L: usize> Drop for $name<L> {
            fn drop(&mut self) {
                if L > 0 {
                    talloc::note_destructed_at(self as *const Self as usize, stringify!($name));
                }
                talloc::bypass(|| DLOG.with(|d| d.borrow_mut().push((L, $a))));
            }
        }
        unsafe impl<'gc, const L: usize> Collect<'gc> for $name<L> {
            const NEEDS_TRACE: bool = false;
        }
        impl<const L: usize> Payload for $name<L> {
            const L: usize = L;
            const A: usize = $a;
            fn new() -> Self { $name(std::array::from_fn(|_| Cell::new(0))) }
        }
    )*};
}
aligned!(A1 = 1, A2 = 2, A4 = 4, A8 = 8, A16 = 16, A32 = 32, A64 = 64, A128 = 128, A1024 = 1024, A4096 = 4096);

macro_rules! aligned_nodrop {
    ($($name:ident = $a:literal),*) => {$(
        /// payload without drop glue (Copy-like)
        #[repr(align($a))]
        pub struct $name<const L: usize>(pub [Cell<u8>; L]);
        unsafe impl<'gc, const L: usize> Collect<'gc> for $name<L> {
            const NEEDS_TRACE: bool = false;
        }
        impl<const L: usize> Payload for $name<L> {
            const L: usize = L + 1000;
            const A: usize = $a;
            const DROPS: bool = false;
            fn new() -> Self { $name(std::array::from_fn(|_| Cell::new(0))) }
        }
    )*};
}
aligned_nodrop!(P1 = 1, P4 = 4, P64 = 64);

pub struct Root<'gc> {
    pub keep: Vec<Gc<'gc, ()>>,
    pub weak: Vec<gc_arena::GcWeak<'gc, ()>>,
}
unsafe impl<'gc> Collect<'gc> for Root<'gc> {
    fn trace<T: Trace<'gc>>(&self, cc: &mut T) {
        for g in &self.keep {
            cc.trace_gc(*g);
        }
        for g in &self.weak {
            cc.trace_gc_weak(*g);
        }
    }
}
pub type A = Arena<Rootable![Root<'_>]>;
pub fn new_arena() -> A {
    talloc::subject(|| Arena::new(|_| Root { keep: vec![], weak: vec![] }))
}

fn pat(i: usize, salt: usize) -> u8 {
    (i.wrapping_mul(31) ^ salt.wrapping_mul(7) ^ 0x5a) as u8
}

/// Description of one allocated value as the allocator and the type system see it.
#[derive(Clone, Copy, Debug)]
pub struct Val {
    pub addr: usize,
    pub size: usize,
    pub align: usize,
    pub id: u32,
}

/// Layout oracle on a fresh allocation, before anything is written to it.
pub fn check_layout(v: &Val) -> Result<talloc::Block, String> {
    let Some(b) = talloc::register_gc(v.addr, v.id) else {
        return Err(format!("no allocator block contains the byte before value address {:#x}", v.addr));
    };
    if v.addr % v.align != 0 {
        return Err(format!("value address {:#x} not aligned to {}", v.addr, v.align));
    }
    if b.align < v.align {
        return Err(format!("block requested with align {} for a value of align {}", b.align, v.align));
    }
    if v.addr < b.addr || v.addr + v.size > b.addr + b.size {
        return Err(format!("value extent [{:#x}, +{}) not inside its block [{:#x}, +{})", v.addr, v.size, b.addr, b.size));
    }
    if v.addr - b.addr < 2 * std::mem::size_of::<usize>() {
        return Err(format!("only {} bytes of bookkeeping space before the value", v.addr - b.addr));
    }
    Ok(b)
}

pub fn write_pattern(v: &Val, salt: usize) {
    for i in 0..v.size {
        unsafe { (v.addr as *mut u8).add(i).write_volatile(pat(i, salt)) };
    }
}
pub fn check_pattern(v: &Val, salt: usize, when: &str) -> Result<(), String> {
    match talloc::addr_allocated(v.addr.wrapping_sub(1)) {
        Some(true) => {}
        other => return Err(format!("{when}: block of the rooted value is no longer allocated ({other:?})")),
    }
    for i in 0..v.size {
        let b = unsafe { (v.addr as *const u8).add(i).read_volatile() };
        if b != pat(i, salt) {
            return Err(format!("{when}: byte {i} of the value reads {b:#x}, expected {:#x}", pat(i, salt)));
        }
    }
    Ok(())
}

/// Common life cycle: rooted through collections, then reclaimed by collection (mode 0) or by
/// dropping the arena (mode 1). `expect_drops` = (tag, count) pairs.
pub fn life_cycle(mut arena: A, v: Val, mode: u8, expect_drops: &[((usize, usize), usize)]) -> Result<(), String> {
    let salt = v.size + v.align;
    write_pattern(&v, salt);
    for round in 0..3 {
        arena.finish_cycle();
        check_pattern(&v, salt, &format!("after full collection {round} while rooted"))?;
        // stop in mid-cycle states too
        arena.finish_marking();
        check_pattern(&v, salt, "fully marked")?;
    }
    if dlog_len() != 0 {
        return Err("a destructor ran while the value was rooted".into());
    }
    if mode >= 3 {
        // the value dies while a weak pointer to it is still reachable: the value-less shell stays allocated (whatever the
        // library does to the block in between, the allocator must see matching layouts), then (3) the weak pointer goes
        // and a later cycle releases the shell, or (4) the arena is dropped with the shell still there
        arena.mutate_root(|_, r| {
            let ws: Vec<_> = r.keep.iter().map(|g| Gc::downgrade(*g)).collect();
            r.weak = ws;
            r.keep.clear();
        });
        // (the arena is fully marked at this point: the cycle in progress keeps the value, the next one lets it die)
        arena.finish_cycle();
        arena.finish_cycle();
        if arena.metrics().total_gc_count() != 1 {
            return Err(format!("total_gc_count {} with one weakly held shell", arena.metrics().total_gc_count()));
        }
        if arena.mutate(|_, r| r.weak.iter().any(|w| !w.is_dropped())) {
            return Err("weakly held value not destructed by a full cycle".into());
        }
        arena.finish_cycle();
        if mode == 3 {
            arena.mutate_root(|_, r| r.weak.clear());
            arena.finish_cycle();
            arena.finish_cycle();
            if arena.metrics().total_gc_count() != 0 {
                return Err(format!("total_gc_count {} after the shell's last weak pointer went", arena.metrics().total_gc_count()));
            }
        } else {
            drop(arena);
        }
    } else if mode == 0 {
        arena.mutate_root(|_, r| r.keep.clear());
        arena.finish_cycle();
        arena.finish_cycle();
        if arena.metrics().total_gc_count() != 0 {
            return Err(format!("total_gc_count {} after the value was collected", arena.metrics().total_gc_count()));
        }
    } else {
        if mode == 2 {
            // drop mid-sweep
            if let Some(m) = arena.finish_marking() {
                m.start_sweeping();
            }
        }
        drop(arena);
    }
    for ((l, a), n) in expect_drops {
        let got = dlog_count(*l, *a);
        if got != *n {
            return Err(format!("destructor of payload (size tag {l}, align {a}) ran {got} times, expected {n}"));
        }
    }
    match talloc::gc_block(v.id) {
        Some(b) if b.freed => {}
        _ => return Err("block was not returned to the allocator".into()),
    }
    let errs = talloc::take_errors();
    if !errs.is_empty() {
        return Err(errs.join("; "));
    }
    Ok(())
}

pub fn in_window(f: impl FnOnce() -> Result<(), String>) -> Result<(), String> {
    dlog_clear();
    talloc::begin_window();
    let r = std::panic::catch_unwind(std::panic::AssertUnwindSafe(f));
    let rep = talloc::end_window();
    dlog_clear();
    let r = match r {
        Ok(r) => r,
        Err(p) => Err(format!("panic at {}: {}", crate::LAST_PANIC_LOC.with(|c| c.borrow().clone()), gcv::wops::panic_msg(&p))),
    };
    r?;
    if !rep.errors.is_empty() {
        return Err(rep.errors.join("; "));
    }
    if let Some(b) = rep.leaked.iter().find(|b| b.subject) {
        return Err(format!("allocation of size {} align {} made by the arena never returned", b.size, b.align));
    }
    Ok(())
}

fn sized_case<T: Payload>(mode: u8) -> Result<(), String> {
    in_window(|| {
        let mut arena = new_arena();
        let v = arena.mutate_root(|mc, root| {
            let g = talloc::subject(|| Gc::new(mc, T::new()));
            root.keep.push(Gc::erase(g));
            Val { addr: Gc::as_ptr(g) as usize, size: std::mem::size_of::<T>(), align: std::mem::align_of::<T>(), id: 1 }
        });
        if v.size != T::L.next_multiple_of(T::A) || v.align != T::A {
            return Err("harness: unexpected payload layout".into());
        }
        check_layout(&v)?;
        // raw pointer round trip
        arena.mutate(|_, root| -> Result<(), String> {
            let g = root.keep[0];
            let p = Gc::as_ptr(g);
            let g2: Gc<()> = unsafe { Gc::from_ptr(p) };
            if !Gc::ptr_eq(g, g2) || Gc::as_ptr(g2) as usize != v.addr {
                return Err("as_ptr/from_ptr round trip changed the address".into());
            }
            Ok(())
        })?;
        life_cycle(arena, v, mode, &[((T::L, T::A), 1)])
    })
}

fn slice_case<E: Payload>(len: usize, mode: u8) -> Result<(), String> {
    in_window(|| {
        let mut arena = new_arena();
        let v = arena.mutate_root(|mc, root| -> Result<Val, String> {
            let g: GcSlice<E> = talloc::subject(|| GcSliceBuilder::<E>::new(len).write_slice_with(mc, |_| E::new()));
            root.keep.push(Gc::erase(g));
            if g.len() != len {
                return Err(format!("slice built with len {len} reads len {}", g.len()));
            }
            let addr = Gc::as_ptr(g) as *const () as usize;
            // fat <-> thin
            let thin = Gc::as_thin(g);
            let fat = Gc::as_fat(thin);
            if Gc::as_ptr(fat) as *const () as usize != addr || fat.len() != len || thin.len() != len {
                return Err(format!("as_thin/as_fat: addr {:#x} len {} (thin len {}) vs addr {addr:#x} len {len}", Gc::as_ptr(fat) as *const () as usize, fat.len(), thin.len()));
            }
            // the thin reference denotes memory inside the value (for an empty slice: no memory at all)
            {
                let r = Gc::as_thin_ref(thin);
                let (ra, rs) = (r as *const _ as *const () as usize, std::mem::size_of_val(r));
                if ra != addr || ra + rs > addr + std::mem::size_of::<E>() * len {
                    return Err(format!("as_thin_ref denotes {rs} byte(s) at {ra:#x}, outside the value ({} byte(s) at {addr:#x})", std::mem::size_of::<E>() * len));
                }
            }
            let tp = Gc::as_thin_ptr(thin);
            let thin2 = unsafe { gc_arena::GcThinSlice::<E>::from_thin_ptr_with_kind(tp) };
            if tp as usize != addr || thin2.len() != len || Gc::as_ptr(thin2) as *const () as usize != addr {
                return Err("as_thin_ptr/from_thin_ptr_with_kind round trip lost address or length".into());
            }
            let g3: GcSlice<E> = unsafe { Gc::from_ptr_with_kind(Gc::as_ptr(g)) };
            if g3.len() != len || !Gc::ptr_eq(g3, g) {
                return Err("as_ptr/from_ptr_with_kind round trip lost address or length".into());
            }
            Ok(Val { addr, size: std::mem::size_of::<E>() * len, align: std::mem::align_of::<E>(), id: 1 })
        })?;
        check_layout(&v)?;
        life_cycle(arena, v, mode, &[((E::L, E::A), len)])
    })
}

/// a slice of zero-sized elements longer than u32::MAX: costs no memory, its length must survive every representation
fn huge_zst_len_case(mode: u8) -> Result<(), String> {
    in_window(|| {
        let mut arena = new_arena();
        const N: usize = (1usize << 32) + 5;
        static UNITS: [(); N] = [(); N];
        let v = arena.mutate_root(|mc, root| -> Result<Val, String> {
            let g: GcSlice<()> = talloc::subject(|| GcSlice::new_slice(mc, &UNITS[..]));
            root.keep.push(Gc::erase(g));
            let addr = Gc::as_ptr(g) as *const () as usize;
            let thin = Gc::as_thin(g);
            let fat = Gc::as_fat(thin);
            if g.len() != N || thin.len() != N || fat.len() != N {
                return Err(format!("a slice of {N} zero-sized elements reads length {} (thin {}, fat again {})", g.len(), thin.len(), fat.len()));
            }
            Ok(Val { addr, size: 0, align: 1, id: 1 })
        })?;
        check_layout(&v)?;
        life_cycle(arena, v, mode, &[])
    })
}

fn str_case(len: usize, mode: u8) -> Result<(), String> {
    in_window(|| {
        let mut arena = new_arena();
        let text: String = (0..len).map(|i| (b'a' + (i % 26) as u8) as char).collect();
        let v = arena.mutate_root(|mc, root| -> Result<Val, String> {
            let g: GcStr = talloc::subject(|| GcStr::new_str(mc, &text));
            root.keep.push(Gc::erase(g));
            if &*g != text.as_str() {
                return Err("str contents differ".into());
            }
            let thin = Gc::as_thin(g);
            if &*thin != text.as_str() || &*Gc::as_fat(thin) != text.as_str() {
                return Err("thin str reads differently".into());
            }
            Ok(Val { addr: Gc::as_ptr(g) as *const () as usize, size: len, align: 1, id: 1 })
        })?;
        check_layout(&v)?;
        life_cycle(arena, v, mode, &[])
    })
}

fn swh_case<H: Payload, E: Payload>(len: usize, mode: u8) -> Result<(), String> {
    in_window(|| {
        let mut arena = new_arena();
        let v = arena.mutate_root(|mc, root| -> Result<Val, String> {
            let g: GcSliceWithHeader<H, E> = talloc::subject(|| GcSliceWithHeaderBuilder::<H, E>::new(len).write_header(H::new()).write_slice_with(mc, |_| E::new()));
            root.keep.push(Gc::erase(g));
            if g.slice.len() != len {
                return Err(format!("header+slice built with len {len} reads {}", g.slice.len()));
            }
            let addr = Gc::as_ptr(g) as *const () as usize;
            let size = std::mem::size_of_val(&*g);
            let align = std::mem::align_of_val(&*g);
            let haddr = &g.header as *const H as usize;
            let saddr = g.slice.as_ptr() as usize;
            if haddr != addr || saddr < haddr + std::mem::size_of::<H>() || saddr % std::mem::align_of::<E>() != 0 || saddr + len * std::mem::size_of::<E>() > addr + size {
                return Err("header / slice positions inconsistent with repr(C)".into());
            }
            let thin = Gc::as_thin(g);
            let fat = Gc::as_fat(thin);
            if thin.slice.len() != len || fat.slice.len() != len || Gc::as_ptr(fat) as *const () as usize != addr || Gc::as_thin_ptr(thin) as usize != addr {
                return Err("as_thin/as_fat lost address or length".into());
            }
            {
                let r = Gc::as_thin_ref(thin);
                let (ra, rs) = (r as *const _ as *const () as usize, std::mem::size_of_val(r));
                if ra != addr || ra + rs > addr + size {
                    return Err(format!("as_thin_ref denotes {rs} byte(s) at {ra:#x}, outside the value ({size} byte(s) at {addr:#x})"));
                }
            }
            let thin2 = unsafe { gc_arena::GcThinSliceWithHeader::<H, E>::from_thin_ptr_with_kind(Gc::as_thin_ptr(thin)) };
            if thin2.slice.len() != len {
                return Err("from_thin_ptr_with_kind lost the length".into());
            }
            Ok(Val { addr, size, align, id: 1 })
        })?;
        check_layout(&v)?;
        let mut exp = vec![((H::L, H::A), 1)];
        if (E::L, E::A) == (H::L, H::A) {
            exp[0].1 += len;
        } else {
            exp.push(((E::L, E::A), len));
        }
        life_cycle(arena, v, mode, &exp)
    })
}

// ---- per-value metadata of arbitrary type, per-type metadata
pub trait MetaVal: Copy + Send + 'static {
    fn make() -> Self;
    fn as_u128(self) -> u128;
}
impl MetaVal for () {
    fn make() {}
    fn as_u128(self) -> u128 {
        7
    }
}
impl MetaVal for usize {
    fn make() -> usize {
        0xDEAD_BEEF
    }
    fn as_u128(self) -> u128 {
        self as u128
    }
}
impl MetaVal for u8 {
    fn make() -> u8 {
        0xA7
    }
    fn as_u128(self) -> u128 {
        self as u128
    }
}
impl MetaVal for [u32; 3] {
    fn make() -> Self {
        [1, 0x2222_2222, 3]
    }
    fn as_u128(self) -> u128 {
        self[0] as u128 | (self[1] as u128) << 32 | (self[2] as u128) << 64
    }
}
impl MetaVal for u128 {
    fn make() -> u128 {
        0x0123_4567_89AB_CDEF_FEDC_BA98_7654_3210
    }
    fn as_u128(self) -> u128 {
        self
    }
}
#[derive(Clone, Copy)]
#[repr(align(32))]
pub struct M32(u64);
impl MetaVal for M32 {
    fn make() -> Self {
        M32(0x3232_3232_0000_1111)
    }
    fn as_u128(self) -> u128 {
        self.0 as u128
    }
}
pub struct MetaP<X>(PhantomData<X>);
impl<T, M, X: MetaVal> PtrMeta<T, M> for MetaP<X> {
    type PtrMetadata = X;
    type Thin = T;
    fn to_thin(_: &'static M, fat: *const T) -> *const T {
        fat
    }
    fn from_thin(_: &'static M, thin: *const T, meta: X) -> *const T {
        talloc::bypass(|| META_SEEN.with(|m| m.borrow_mut().push(meta.as_u128())));
        thin
    }
}
impl<T, M, X: MetaVal> AllocMeta<T, M> for MetaP<X> {
    fn layout(_: &'static M, _: X) -> Option<std::alloc::Layout> {
        Some(std::alloc::Layout::new::<T>())
    }
}
struct TM;
impl TypeMeta for TM {
    type TypeMetadata = (u64, u8);
    const TYPE_METADATA: &'static (u64, u8) = &(0xABCD_EF01_2345_6789, 0x42);
}

fn meta_case<T: Payload, X: MetaVal>(mode: u8) -> Result<(), String> {
    in_window(|| {
        let mut arena = new_arena();
        let v = arena.mutate_root(|mc, root| -> Result<Val, String> {
            let g = talloc::subject(|| unsafe { GcBuilder::<T, (u64, u8), MetaP<X>>::new_with_type_and_ptr_meta::<TM>(X::make()) }.write(mc, T::new()));
            root.keep.push(Gc::erase(g));
            if *Gc::type_metadata(g) != (0xABCD_EF01_2345_6789, 0x42) {
                return Err("per-type metadata reads differently".into());
            }
            talloc::bypass(|| META_SEEN.with(|m| m.borrow_mut().clear()));
            let thin = Gc::as_thin(g);
            let back = Gc::as_ptr(thin); // reads the per-value metadata from the header
            let seen = META_SEEN.with(|m| m.borrow().clone());
            if seen.is_empty() || seen.iter().any(|s| *s != X::make().as_u128()) {
                return Err(format!("per-value metadata read back as {seen:x?}, stored {:x}", X::make().as_u128()));
            }
            if back as usize != Gc::as_ptr(g) as usize {
                return Err("thin pointer with custom metadata lost the address".into());
            }
            Ok(Val { addr: Gc::as_ptr(g) as usize, size: std::mem::size_of::<T>(), align: std::mem::align_of::<T>(), id: 1 })
        })?;
        check_layout(&v)?;
        life_cycle(arena, v, mode, &[((T::L, T::A), 1)])
    })
}

// ---- a user-defined pointer metadata for an UNSIZED value: "rows" of u32 whose length is a property of the
// row TYPE (per-type metadata), with no per-value metadata at all; two thin representations
pub struct Columns(usize);
pub struct RowThinElem;
pub struct RowThinUnit;
impl PtrMeta<[u32], Columns> for RowThinElem {
    type PtrMetadata = ();
    type Thin = u32;
    fn to_thin(_: &'static Columns, fat: *const [u32]) -> *const u32 {
        fat as *const u32
    }
    fn from_thin(c: &'static Columns, thin: *const u32, _: ()) -> *const [u32] {
        std::ptr::slice_from_raw_parts(thin, c.0)
    }
}
impl AllocMeta<[u32], Columns> for RowThinElem {
    fn layout(c: &'static Columns, _: ()) -> Option<std::alloc::Layout> {
        std::alloc::Layout::array::<u32>(c.0).ok()
    }
}
impl PtrMeta<[u32], Columns> for RowThinUnit {
    type PtrMetadata = ();
    type Thin = ();
    fn to_thin(_: &'static Columns, fat: *const [u32]) -> *const () {
        fat as *const ()
    }
    fn from_thin(c: &'static Columns, thin: *const (), _: ()) -> *const [u32] {
        std::ptr::slice_from_raw_parts(thin as *const u32, c.0)
    }
}
impl AllocMeta<[u32], Columns> for RowThinUnit {
    fn layout(c: &'static Columns, _: ()) -> Option<std::alloc::Layout> {
        std::alloc::Layout::array::<u32>(c.0).ok()
    }
}
pub struct RowT<const N: usize>;
impl<const N: usize> TypeMeta for RowT<N> {
    type TypeMetadata = Columns;
    const TYPE_METADATA: &'static Columns = &Columns(N);
}

/// stage 0: completed row (then reclaimed per `mode`); stage 1: builder abandoned before completion
fn row_case<P: AllocMeta<[u32], Columns> + PtrMeta<[u32], Columns, PtrMetadata = ()> + 'static, const N: usize>(mode: u8, stage: u8) -> Result<(), String>
where
    P::Thin: 'static,
{
    in_window(|| {
        let mut arena = new_arena();
        if stage == 1 {
            let b = talloc::subject(|| unsafe { GcBuilder::<[u32], Columns, P>::new_with_type_and_ptr_meta::<RowT<N>>(()) });
            drop(b);
            drop(arena);
            return Ok(());
        }
        let v = arena.mutate_root(|mc, root| -> Result<Val, String> {
            let g = talloc::subject(|| unsafe {
                let mut b = GcBuilder::<[u32], Columns, P>::new_with_type_and_ptr_meta::<RowT<N>>(());
                let p = b.as_ptr();
                if p.len() != N {
                    return Err(format!("builder pointer has length {}, the row type says {N}", p.len()));
                }
                for i in 0..N {
                    (p as *mut u32).add(i).write(0x5000_0000 + i as u32);
                }
                Ok(b.assume_init(mc))
            })?;
            root.keep.push(Gc::erase(g));
            if g.len() != N || g.iter().enumerate().any(|(i, x)| *x != 0x5000_0000 + i as u32) {
                return Err("row reads differently from what was written".into());
            }
            let addr = Gc::as_ptr(g) as *const () as usize;
            let thin = Gc::as_thin(g);
            let fat = Gc::as_fat(thin);
            if fat.len() != N || Gc::as_ptr(fat) as *const () as usize != addr {
                return Err("thin round trip of a row lost address or length".into());
            }
            Ok(Val { addr, size: 4 * N, align: 4, id: 1 })
        })?;
        check_layout(&v)?;
        life_cycle(arena, v, mode, &[])
    })
}

// keep the unit type meta referenced (plain allocations use it)
#[allow(dead_code)]
fn _unit() -> &'static () {
    UnitTypeMeta::TYPE_METADATA
}

pub type Case = (String, Box<dyn Fn() -> Result<(), String> + Send + Sync>);

macro_rules! for_aligns {
    ($m:ident, $($args:tt)*) => {
        $m!(A1, $($args)*); $m!(A2, $($args)*); $m!(A4, $($args)*); $m!(A8, $($args)*); $m!(A16, $($args)*);
        $m!(A32, $($args)*); $m!(A64, $($args)*); $m!(A128, $($args)*); $m!(A1024, $($args)*); $m!(A4096, $($args)*);
    };
}

pub fn cases(thorough: bool) -> Vec<Case> {
    let mut v: Vec<Case> = vec![];
    let modes: &[u8] = &[0, 1, 2];
    macro_rules! sized_l {
        ($a:ident, $($l:literal),*) => {$(
            for m in [0u8, 1, 2, 3, 4] { v.push((format!("sized/{}/{}/mode{}", stringify!($a), $l, m), Box::new(move || sized_case::<$a<$l>>(m)))); }
        )*};
    }
    // large values (a size-keyed cache of big freed blocks would hand an over-aligned value a word-aligned block)
    macro_rules! big {
        ($($t:ty),*) => {$(
            for m in [0u8, 1, 3] { v.push((format!("sized_big/{}/mode{}", stringify!($t), m), Box::new(move || sized_case::<$t>(m)))); }
        )*};
    }
    big!(A1<65536>, A8<70000>, A4096<65536>, A1<262144>, A4096<262144>, A64<65600>);
    for m in [0u8, 1] {
        v.push((format!("huge_zst_len/mode{m}"), Box::new(move || huge_zst_len_case(m))));
    }
    for_aligns!(sized_l, 0, 1, 2, 3, 4, 7, 8, 9, 15, 16, 17, 24, 31, 32, 33, 64, 100);
    let lens: &[usize] = if thorough { &[0, 1, 2, 3, 5, 8, 17] } else { &[0, 1, 2, 3, 5, 8] };
    macro_rules! elems {
        ($m:ident) => {
            $m!(A1<1>); $m!(A2<2>); $m!(A1<3>); $m!(A8<8>); $m!(A16<16>); $m!(A8<24>); $m!(A32<32>); $m!(A1<0>); $m!(A64<0>); $m!(A64<64>);
        };
    }
    macro_rules! slice_e {
        ($e:ty) => {
            for len in lens { for m in modes { let (len, m) = (*len, *m); v.push((format!("slice/{}/len{}/mode{}", stringify!($e), len, m), Box::new(move || slice_case::<$e>(len, m)))); } }
        };
    }
    elems!(slice_e);
    for len in [0usize, 1, 2, 3, 5, 8, 100] {
        for m in modes {
            let m = *m;
            v.push((format!("str/len{len}/mode{m}"), Box::new(move || str_case(len, m))));
        }
    }
    macro_rules! swh_h {
        ($h:ty) => {
            macro_rules! swh_e {
                ($e:ty) => {
                    for len in lens { for m in modes { let (len, m) = (*len, *m); v.push((format!("swh/{}/{}/len{}/mode{}", stringify!($h), stringify!($e), len, m), Box::new(move || swh_case::<$h, $e>(len, m)))); } }
                };
            }
            elems!(swh_e);
        };
    }
    elems!(swh_h);
    macro_rules! meta_t {
        ($t:ty) => {
            for m in modes { let m = *m;
                v.push((format!("meta/{}/unit/mode{}", stringify!($t), m), Box::new(move || meta_case::<$t, ()>(m))));
                v.push((format!("meta/{}/usize/mode{}", stringify!($t), m), Box::new(move || meta_case::<$t, usize>(m))));
                v.push((format!("meta/{}/u8/mode{}", stringify!($t), m), Box::new(move || meta_case::<$t, u8>(m))));
                v.push((format!("meta/{}/[u32;3]/mode{}", stringify!($t), m), Box::new(move || meta_case::<$t, [u32; 3]>(m))));
                v.push((format!("meta/{}/u128/mode{}", stringify!($t), m), Box::new(move || meta_case::<$t, u128>(m))));
                v.push((format!("meta/{}/align32/mode{}", stringify!($t), m), Box::new(move || meta_case::<$t, M32>(m))));
            }
        };
    }
    meta_t!(A1<1>);
    meta_t!(A8<8>);
    meta_t!(A1<0>);
    meta_t!(A32<33>);
    meta_t!(A4096<1>);
    macro_rules! rows {
        ($($n:literal),*) => {$(
            for stage in 0..2u8 {
                for m in modes { let m = *m;
                    if stage == 1 && m != 0 { continue; }
                    v.push((format!("row/thin_elem/n{}/mode{}/stage{}", $n, m, stage), Box::new(move || row_case::<RowThinElem, $n>(m, stage))));
                    v.push((format!("row/thin_unit/n{}/mode{}/stage{}", $n, m, stage), Box::new(move || row_case::<RowThinUnit, $n>(m, stage))));
                }
            }
        )*};
    }
    rows!(0, 1, 3, 40, 1000);
    v
}

pub fn run_cases(cases: Vec<Case>, only: Option<&str>) -> (u64, Vec<(String, String)>, Vec<String>) {
    if std::env::var_os("GRID_LIST").is_some() {
        // the driver asks for the case names only (crash isolation)
        for c in &cases {
            println!("{}", c.0);
        }
        return (0, vec![], vec![]);
    }
    let cases: Vec<Case> = cases.into_iter().filter(|c| only.map(|o| c.0 == o).unwrap_or(true)).collect();
    let next = AtomicUsize::new(0);
    let viol: Mutex<Vec<(usize, String)>> = Mutex::new(vec![]);
    let n = std::thread::available_parallelism().map(|n| n.get()).unwrap_or(4);
    let all_names: Vec<String> = cases.iter().map(|c| c.0.clone()).collect();
    let watch = crate::watchdog(n, cases.len(), Box::new(move |i| all_names[i].clone()));
    std::thread::scope(|s| {
        for wi in 0..n {
            let watch = watch.clone();
            let (next, viol, cases) = (&next, &viol, &cases);
            s.spawn(move || {
                loop {
                    let i = next.fetch_add(1, Ordering::Relaxed);
                    if i >= cases.len() {
                        break;
                    }
                    watch.begin(wi, i);
                    let r = (cases[i].1)();
                    watch.end(wi);
                    if let Err(e) = r {
                        viol.lock().unwrap().push((i, e));
                    }
                }
            });
        }
    });
    let mut v = viol.into_inner().unwrap();
    v.sort();
    let names: Vec<String> = cases.iter().map(|c| c.0.clone()).collect();
    (cases.len() as u64, v.into_iter().map(|(i, e)| (names[i].clone(), e)).collect(), names)
}

pub fn run(thorough: bool, only: Option<&str>) -> GridOut {
    let (n, viol, names) = run_cases(cases(thorough), only);
    let nontrivial = names.iter().filter(|c| !c.contains("/A1<0>") && !c.ends_with("/len0/mode0")).count() as u64;
    GridOut {
        evaluations: n,
        nontrivial,
        rule: "full grid: sized payloads repr(align(A)) [u8; L] for L in {0,1,2,3,4,7,8,9,15,16,17,24,31,32,33,64,100} x A in {1,2,4,8,16,32,64,128,1024,4096}; slices / header+slice over 10 element and header layouts (incl. zero-sized and over-aligned) x lengths; str lengths; 6 per-value metadata types (incl. over-aligned) x 5 payload layouts with per-type metadata; a user-defined pointer metadata for an unsized value (u32 rows of width 0 / 1 / 3 / 40 / 1000 taken from per-type metadata, no per-value metadata, two thin representations; completed and abandoned); each x reclamation mode (collected, arena dropped asleep, arena dropped mid-sweep; sized values also: died while weakly held, shell released by a later cycle / by arena drop); values of 64 KiB .. 256 KiB incl. over-aligned ones; a slice of 2^32 + 5 zero-sized elements. Non-trivial = cases with a non-zero-sized value".into(),
        samples: names.iter().step_by((names.len() / 6).max(1)).take(6).map(|s| J::Str(s.clone())).collect(),
        violations: viol.iter().map(|(c, e)| J::obj().with("case", c.as_str()).with("message", e.as_str())).collect(),
        extra: J::obj().with("exhaustive", only.is_none()),
    }
}
