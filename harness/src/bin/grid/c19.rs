//! C19 (run-time half) — conversion chains preserve identity, the collector treats the result as
//! the same object, ZstCache returns its shared pointer exactly for fitting zero-sized types.

use std::fmt::Debug;

use gc_arena::{
    Arena, Collect, DynamicRootSet, Gc, GcSliceBuilder, GcSliceWithHeaderBuilder, GcWeak, Mutation, RefLock, Rootable, collect::Trace,
    slice::{GcSlice, GcSliceWithHeader, GcStr},
    unsize,
    zst_cache::ZstCache,
};
use gcv::{json::J, talloc};

use crate::GridOut;
use crate::c17::{A1, A2, A8, A16, A64, A128, Case, Payload, dlog_count, dlog_len, in_window, run_cases};

pub struct Root<'gc> {
    keep: Vec<Gc<'gc, ()>>,
    weak: Vec<GcWeak<'gc, ()>>,
    set: DynamicRootSet<'gc>,
}
unsafe impl<'gc> Collect<'gc> for Root<'gc> {
    fn trace<T: Trace<'gc>>(&self, cc: &mut T) {
        for g in &self.keep {
            cc.trace_gc(*g);
        }
        for g in &self.weak {
            cc.trace_gc_weak(*g);
        }
        cc.trace(&self.set);
    }
}
type A = Arena<Rootable![Root<'_>]>;
fn new_arena() -> A {
    talloc::subject(|| Arena::new(|mc| Root { keep: vec![], weak: vec![], set: DynamicRootSet::new(mc) }))
}

trait Tr {
    fn tag(&self) -> usize;
}
impl<const L: usize> Tr for A8<L> {
    fn tag(&self) -> usize {
        800 + L
    }
}
impl<const L: usize> Debug for A8<L> {
    fn fmt(&self, f: &mut std::fmt::Formatter<'_>) -> std::fmt::Result {
        write!(f, "A8<{L}>")
    }
}
#[repr(transparent)]
struct Twin(A8<8>);

type T0 = A8<8>;

/// identity-typed conversions on a sized Gc<T0>
fn sized_step<'gc>(mc: &'gc Mutation<'gc>, set: DynamicRootSet<'gc>, step: u8, g: Gc<'gc, T0>) -> Result<Gc<'gc, T0>, String> {
    Ok(match step {
        0 => Gc::erase_kind(g),
        1 => Gc::downgrade(g).upgrade(mc).ok_or("upgrade of a live pointer failed")?,
        2 => Gc::as_fat(Gc::as_thin(g)),
        3 => unsafe { Gc::from_ptr(Gc::as_ptr(g)) },
        4 => {
            let thin = Gc::as_thin(g);
            Gc::as_fat(unsafe { gc_arena::GcThin::from_thin_ptr_with_kind(Gc::as_thin_ptr(thin)) })
        }
        _ => {
            let h = set.stash::<Rootable![T0]>(mc, g);
            let f = set.fetch(&h);
            drop(h);
            f
        }
    })
}
const SIZED_STEPS: u8 = 6;

/// terminal conversions of a sized pointer: returns the erased result and whether its value reads back
fn sized_terminal<'gc>(term: u8, g: Gc<'gc, T0>) -> Result<Gc<'gc, ()>, String> {
    Ok(match term {
        0 => Gc::erase(g),
        1 => {
            let d: Gc<dyn Tr> = unsize!(g => dyn Tr);
            if d.tag() != 808 {
                return Err("trait object reads another value".into());
            }
            Gc::erase(d)
        }
        2 => {
            let t: Gc<Twin> = unsafe { Gc::cast::<Twin>(g) };
            if &t.0 as *const T0 as usize != Gc::as_ptr(g) as usize {
                return Err("cast moved the value".into());
            }
            Gc::erase(t)
        }
        3 => {
            let w = GcWeak::erase(Gc::downgrade(g));
            let _ = w;
            Gc::erase(g)
        }
        _ => {
            let d: Gc<dyn Debug> = unsize!(g => dyn Debug);
            if format!("{:?}", &*d) != "A8<8>" {
                return Err("dyn Debug reads another value".into());
            }
            Gc::erase(d)
        }
    })
}
const SIZED_TERMS: u8 = 5;

/// Life cycle: only the converted pointer is rooted; survive two cycles; unroot; destructed once.
fn survive_and_die(mut arena: A, addr: usize, expect: &[((usize, usize), usize)], weak_only: bool) -> Result<(), String> {
    for _ in 0..2 {
        arena.finish_cycle();
        if !weak_only && dlog_len() != 0 {
            return Err("value destructed while the converted pointer was rooted".into());
        }
        if talloc::addr_allocated(addr.wrapping_sub(1)) != Some(true) {
            return Err("block released while the converted pointer was rooted".into());
        }
    }
    arena.mutate_root(|_, r| {
        r.keep.clear();
        r.weak.clear();
    });
    arena.finish_cycle();
    arena.finish_cycle();
    for ((l, a), n) in expect {
        if dlog_count(*l, *a) != *n {
            return Err(format!("payload (size tag {l}, align {a}) destructed {} times, expected {n}", dlog_count(*l, *a)));
        }
    }
    if talloc::addr_allocated(addr.wrapping_sub(1)) != Some(false) {
        return Err("block not released after the last pointer was dropped".into());
    }
    drop(arena);
    let e = talloc::take_errors();
    if !e.is_empty() {
        return Err(e.join("; "));
    }
    Ok(())
}

fn sized_chain(steps: Vec<u8>, term: u8) -> Result<(), String> {
    in_window(|| {
        let mut arena = new_arena();
        let addr = arena.mutate_root(|mc, root| -> Result<usize, String> {
            let g0 = talloc::subject(|| Gc::new(mc, T0::new()));
            talloc::register_gc(Gc::as_ptr(g0) as usize, 1);
            g0.0[3].set(0x77);
            let mut g = g0;
            for s in &steps {
                g = sized_step(mc, root.set, *s, g)?;
                if !Gc::ptr_eq(g, g0) || Gc::as_ptr(g) as usize != Gc::as_ptr(g0) as usize {
                    return Err(format!("step {s} produced a pointer that is not ptr_eq to the original"));
                }
                if g.0[3].get() != 0x77 {
                    return Err(format!("step {s}: dereference does not read the original value"));
                }
            }
            let e = sized_terminal(term, g)?;
            if Gc::as_ptr(e) as usize != Gc::as_ptr(g0) as usize || !Gc::ptr_eq(e, Gc::erase(g0)) {
                return Err(format!("terminal conversion {term} changed the address"));
            }
            root.keep.push(e);
            Ok(Gc::as_ptr(g0) as usize)
        })?;
        survive_and_die(arena, addr, &[((8, 8), 1)], false)
    })
}

/// unsized sources: 0 = built slice, 1 = str, 2 = header+slice, 3 = array unsized to slice, 4 = RefLock<T> -> RefLock<dyn Tr>
fn unsized_chain(kind: u8, steps: Vec<u8>) -> Result<(), String> {
    in_window(|| {
        let mut arena = new_arena();
        let (addr, exp): (usize, Vec<((usize, usize), usize)>) = arena.mutate_root(|mc, root| -> Result<_, String> {
            match kind {
                0 => {
                    let g0: GcSlice<A8<8>> = talloc::subject(|| GcSliceBuilder::<A8<8>>::new(3).write_slice_with(mc, |_| A8::<8>::new()));
                    g0[1].0[0].set(0x31);
                    let mut g = g0;
                    for s in &steps {
                        g = match s {
                            0 => Gc::downgrade(g).upgrade(mc).ok_or("upgrade failed")?,
                            1 => Gc::as_fat(Gc::as_thin(g)),
                            2 => unsafe { Gc::from_ptr_with_kind(Gc::as_ptr(g)) },
                            _ => Gc::as_fat(unsafe { gc_arena::GcThinSlice::from_thin_ptr_with_kind(Gc::as_thin_ptr(Gc::as_thin(g))) }),
                        };
                        if !Gc::ptr_eq(g, g0) || g.len() != 3 || g[1].0[0].get() != 0x31 {
                            return Err(format!("slice step {s}: identity, length or contents lost"));
                        }
                    }
                    let dk: Gc<[A8<8>]> = Gc::erase_kind(g);
                    if dk.len() != 3 || Gc::as_ptr(dk) as *const () as usize != Gc::as_ptr(g0) as *const () as usize {
                        return Err("erase_kind lost the slice".into());
                    }
                    root.keep.push(Gc::erase(dk));
                    Ok((Gc::as_ptr(g0) as *const () as usize, vec![((8, 8), 3)]))
                }
                1 => {
                    let g0: GcStr = talloc::subject(|| GcStr::new_str(mc, "conversion"));
                    let mut g = g0;
                    for s in &steps {
                        g = match s {
                            0 => Gc::downgrade(g).upgrade(mc).ok_or("upgrade failed")?,
                            1 => Gc::as_fat(Gc::as_thin(g)),
                            2 => unsafe { Gc::from_ptr_with_kind(Gc::as_ptr(g)) },
                            _ => Gc::as_fat(unsafe { gc_arena::GcThinStr::from_thin_ptr_with_kind(Gc::as_thin_ptr(Gc::as_thin(g))) }),
                        };
                        if !Gc::ptr_eq(g, g0) || &*g != "conversion" {
                            return Err(format!("str step {s}: identity or contents lost"));
                        }
                    }
                    root.keep.push(Gc::erase(Gc::erase_kind(g)));
                    Ok((Gc::as_ptr(g0) as *const () as usize, vec![]))
                }
                2 => {
                    let g0: GcSliceWithHeader<A8<8>, A1<3>> = talloc::subject(|| GcSliceWithHeaderBuilder::<A8<8>, A1<3>>::new(2).write_header(A8::<8>::new()).write_slice_with(mc, |_| A1::<3>::new()));
                    g0.header.0[2].set(0x44);
                    let mut g = g0;
                    for s in &steps {
                        g = match s {
                            0 => Gc::downgrade(g).upgrade(mc).ok_or("upgrade failed")?,
                            1 => Gc::as_fat(Gc::as_thin(g)),
                            2 => unsafe { Gc::from_ptr_with_kind(Gc::as_ptr(g)) },
                            _ => Gc::as_fat(unsafe { gc_arena::GcThinSliceWithHeader::from_thin_ptr_with_kind(Gc::as_thin_ptr(Gc::as_thin(g))) }),
                        };
                        if !Gc::ptr_eq(g, g0) || g.slice.len() != 2 || g.header.0[2].get() != 0x44 {
                            return Err(format!("header+slice step {s}: identity, length or contents lost"));
                        }
                    }
                    root.keep.push(Gc::erase(Gc::erase_kind(g)));
                    Ok((Gc::as_ptr(g0) as *const () as usize, vec![((8, 8), 1), ((3, 1), 2)]))
                }
                3 => {
                    let a0: Gc<[A8<8>; 2]> = talloc::subject(|| Gc::new(mc, [A8::<8>::new(), A8::<8>::new()]));
                    a0[1].0[5].set(0x19);
                    let mut g: Gc<[A8<8>]> = unsize!(a0 => [A8<8>]);
                    for s in &steps {
                        g = match s {
                            0 => Gc::downgrade(g).upgrade(mc).ok_or("upgrade failed")?,
                            1 => Gc::erase_kind(g),
                            _ => unsafe { Gc::from_ptr(Gc::as_ptr(g)) },
                        };
                        if g.len() != 2 || g[1].0[5].get() != 0x19 || Gc::as_ptr(g) as *const () as usize != Gc::as_ptr(a0) as usize {
                            return Err(format!("unsized array step {s}: identity, length or contents lost"));
                        }
                    }
                    root.keep.push(Gc::erase(g));
                    Ok((Gc::as_ptr(a0) as usize, vec![((8, 8), 2)]))
                }
                _ => {
                    let r0: Gc<RefLock<A8<8>>> = talloc::subject(|| Gc::new(mc, RefLock::new(A8::<8>::new())));
                    let mut g: Gc<RefLock<dyn Tr>> = unsize!(r0 => RefLock<dyn Tr>);
                    for s in &steps {
                        g = match s {
                            0 => Gc::downgrade(g).upgrade(mc).ok_or("upgrade failed")?,
                            1 => Gc::erase_kind(g),
                            _ => unsafe { Gc::from_ptr(Gc::as_ptr(g)) },
                        };
                        if g.borrow().tag() != 808 || Gc::as_ptr(g) as *const () as usize != Gc::as_ptr(r0) as usize {
                            return Err(format!("RefLock<dyn> step {s}: identity or contents lost"));
                        }
                    }
                    root.keep.push(Gc::erase(g));
                    Ok((Gc::as_ptr(r0) as usize, vec![((8, 8), 1)]))
                }
            }
        })?;
        talloc::register_gc(addr, 1);
        survive_and_die(arena, addr, &exp, false)
    })
}

/// weak conversions: only an erased / unsized weak pointer is kept: value destructed once, shell kept
fn weak_case(kind: u8) -> Result<(), String> {
    in_window(|| {
        let mut arena = new_arena();
        let addr = arena.mutate_root(|mc, root| {
            let g = talloc::subject(|| Gc::new(mc, T0::new()));
            let w = Gc::downgrade(g);
            let e = match kind {
                0 => GcWeak::erase(w),
                1 => GcWeak::erase(unsize!(w => dyn Tr)),
                _ => GcWeak::erase(unsafe { GcWeak::from_ptr(w.as_ptr()) }),
            };
            root.weak.push(e);
            Gc::as_ptr(g) as usize
        });
        talloc::register_gc(addr, 1);
        arena.finish_cycle();
        if dlog_count(8, 8) != 1 {
            return Err("a value held only by a converted weak pointer was not destructed by a full cycle".into());
        }
        let dropped = arena.mutate(|mc, root| root.weak[0].is_dropped() && root.weak[0].upgrade(mc).is_none());
        if !dropped {
            return Err("converted weak pointer does not report the destruction".into());
        }
        survive_and_die(arena, addr, &[((8, 8), 1)], true)
    })
}

/// The value is reachable only through a weak pointer when the arena reaches `phase`; it is then
/// upgraded, converted, stashed, and from then on kept alive by the DynamicRoot handle alone.
fn handle_case(phase: u8, steps: Vec<u8>) -> Result<(), String> {
    in_window(|| {
        let mut arena = new_arena();
        let addr = arena.mutate_root(|mc, root| {
            let g = talloc::subject(|| Gc::new(mc, T0::new()));
            root.weak.push(GcWeak::erase(Gc::downgrade(g)));
            // typed weak pointer kept in a Gc so that it can be recovered
            root.keep.push(Gc::erase(Gc::new(mc, gc_arena::Lock::new(Some(Gc::downgrade(g))))));
            Gc::as_ptr(g) as usize
        });
        talloc::register_gc(addr, 1);
        match phase {
            0 => {}
            1 => {
                let m = arena.metrics();
                m.adjust_debt(1.0e6);
                let d = m.allocation_debt();
                m.adjust_debt(0.01 - d);
                let _ = arena.mark_debt();
            }
            2 => {
                let _ = arena.finish_marking();
            }
            _ => {
                if let Some(m) = arena.finish_marking() {
                    m.start_sweeping();
                }
            }
        }
        let handle = arena.mutate(|mc, root| -> Result<Option<gc_arena::DynamicRoot<Rootable![T0]>>, String> {
            let holder: Gc<gc_arena::Lock<Option<GcWeak<T0>>>> = unsafe { Gc::cast(root.keep[0]) };
            let Some(mut g) = holder.get().unwrap().upgrade(mc) else { return Ok(None) };
            for s in &steps {
                g = sized_step(mc, root.set, *s, g)?;
            }
            Ok(Some(root.set.stash::<Rootable![T0]>(mc, g)))
        })?;
        let Some(handle) = handle else {
            // upgrade refused (Sweeping): nothing to check
            drop(arena);
            return Ok(());
        };
        for round in 0..2 {
            arena.finish_cycle();
            if dlog_len() != 0 {
                return Err(format!("value destructed in full cycle {round} although a DynamicRoot handle for it is alive"));
            }
        }
        let ok = arena.mutate(|_, root| {
            let f = root.set.fetch(&handle);
            Gc::as_ptr(f) as usize == addr
        });
        if !ok {
            return Err("fetch does not return the stashed object".into());
        }
        drop(handle);
        arena.finish_cycle();
        arena.finish_cycle();
        if dlog_count(8, 8) != 1 {
            return Err(format!("after the last handle was dropped the value was destructed {} times", dlog_count(8, 8)));
        }
        drop(arena);
        let e = talloc::take_errors();
        if !e.is_empty() {
            return Err(e.join("; "));
        }
        Ok(())
    })
}

#[repr(align(2))]
struct Marker2;
unsafe impl<'gc> Collect<'gc> for Marker2 {
    const NEEDS_TRACE: bool = false;
}
struct NotZst(#[allow(dead_code)] u8);
unsafe impl<'gc> Collect<'gc> for NotZst {
    const NEEDS_TRACE: bool = false;
}

/// ZstCache<CA> x zero-sized type of alignment ZA x entry point
fn zst_case<const CA: usize, Z: Payload>(entry: u8) -> Result<(), String>
where
    gc_arena::zst_cache::Alignment<CA>: gc_arena::zst_cache::ValidAlignment,
{
    in_window(|| {
        let arena = new_arena();
        // values of type Z handed to the cache: each is destructed exactly once (at once when the shared
        // pointer is served, with the allocation otherwise)
        let made = std::cell::Cell::new(0usize);
        let mk = || {
            made.set(made.get() + 1);
            Z::new()
        };
        arena.mutate(|mc, _| -> Result<(), String> {
            let cache = ZstCache::<CA>::new(mc);
            let cached_addr = Gc::as_ptr(cache.cached_ptr()) as usize;
            if cached_addr % CA != 0 {
                return Err(format!("cached pointer {cached_addr:#x} not aligned to {CA}"));
            }
            let before = mc.metrics().total_gc_count();
            let expect_cached = std::mem::size_of::<Z>() == 0 && Z::A <= CA;
            let (addr, is_cached) = match entry {
                0 => {
                    let g = talloc::subject(|| cache.alloc(mc, mk()));
                    (Gc::as_ptr(g) as usize, cache.is_cached(g))
                }
                1 => {
                    let g = talloc::subject(|| cache.alloc_static(mc, mk()));
                    (Gc::as_ptr(g) as usize, cache.is_cached(g))
                }
                _ => match cache.alloc_zst::<Z>() {
                    Some(g) => (Gc::as_ptr(g) as usize, cache.is_cached(g)),
                    None => (0, false),
                },
            };
            if entry == 2 {
                if (addr != 0) != expect_cached {
                    return Err(format!("alloc_zst returned {} for size {} align {} with cache alignment {CA}", if addr != 0 { "Some" } else { "None" }, std::mem::size_of::<Z>(), Z::A));
                }
                if addr == 0 {
                    return Ok(());
                }
            }
            if is_cached != expect_cached || (addr == cached_addr) != expect_cached {
                return Err(format!("size {} align {} with cache alignment {CA}: cached = {is_cached} (address equal: {}), expected {expect_cached}", std::mem::size_of::<Z>(), Z::A, addr == cached_addr));
            }
            if addr % Z::A != 0 {
                return Err(format!("pointer {addr:#x} returned for a type of alignment {} is misaligned", Z::A));
            }
            let after = mc.metrics().total_gc_count();
            if after - before != (!expect_cached) as usize {
                return Err(format!("{} allocation(s) registered, expected {}", after - before, (!expect_cached) as usize));
            }
            // two different zero-sized types served from the cache are the same allocation: ptr_eq must say
            // so also after unsizing both to the same trait-object type (different vtables)
            if expect_cached && CA >= 2 {
                let a: Gc<dyn std::any::Any> = unsize!(cache.alloc(mc, mk()) => dyn std::any::Any);
                let b: Gc<dyn std::any::Any> = unsize!(cache.alloc(mc, Marker2) => dyn std::any::Any);
                if !Gc::ptr_eq(a, b) || !GcWeak::ptr_eq(Gc::downgrade(a), Gc::downgrade(b)) || !cache.is_cached(a) || !cache.is_cached(b) {
                    return Err("two cached zero-sized values unsized to the same trait-object type are not ptr_eq".into());
                }
            }
            // a non-zero-sized type is never served from the cache
            let n = cache.alloc(mc, NotZst(1));
            if cache.is_cached(n) || cache.alloc_zst::<NotZst>().is_some() {
                return Err("a non-zero-sized type was served from the cache".into());
            }
            Ok(())
        })?;
        drop(arena);
        if Z::DROPS && dlog_count(Z::L, Z::A) != made.get() {
            return Err(format!("{} value(s) of the type were handed to the cache / allocated, {} destructor run(s) over the arena's lifetime", made.get(), dlog_count(Z::L, Z::A)));
        }
        Ok(())
    })
}

/// A ZstCache nested in the root (traced through `Trace::trace`, i.e. subject to its NEEDS_TRACE gate)
/// keeps its shared allocation alive across collections although nobody else points to it.
struct CacheRoot<'gc> {
    cache: ZstCache<'gc, 8>,
    boxed: Box<ZstCache<'gc, 8>>,
    keep: Option<Gc<'gc, A1<0>>>,
    weak: Option<GcWeak<'gc, A1<0>>>,
}
unsafe impl<'gc> Collect<'gc> for CacheRoot<'gc> {
    fn trace<T: Trace<'gc>>(&self, cc: &mut T) {
        cc.trace(&self.cache);
        cc.trace(&self.boxed);
        cc.trace(&self.keep);
        cc.trace(&self.weak);
    }
}
/// mode: 0 nothing else points to the shared allocation, 1 a served pointer kept in the root, 2 a weak pointer kept;
/// collect: 0 = finish_cycle x n, 1 = finish_marking + start_sweeping + finish_cycle x n
fn zst_rooted_case(mode: u8, collect: u8, n: u8) -> Result<(), String> {
    in_window(|| {
        let mut arena = talloc::subject(|| {
            Arena::<Rootable![CacheRoot<'_>]>::new(|mc| CacheRoot { cache: ZstCache::new(mc), boxed: Box::new(ZstCache::new(mc)), keep: None, weak: None })
        });
        let addrs = arena.mutate_root(|mc, root| {
            let g = root.cache.alloc(mc, A1::<0>::new());
            match mode {
                0 => {}
                1 => root.keep = Some(g),
                _ => root.weak = Some(Gc::downgrade(g)),
            }
            [Gc::as_ptr(root.cache.cached_ptr()) as usize, Gc::as_ptr(root.boxed.cached_ptr()) as usize]
        });
        let count = arena.metrics().total_gc_count();
        for round in 0..n {
            if collect == 1 {
                if let Some(m) = arena.finish_marking() {
                    m.start_sweeping();
                }
            }
            arena.finish_cycle();
            if arena.metrics().total_gc_count() != count {
                return Err(format!("round {round}: total_gc_count() went from {count} to {} although both caches are reachable from the root", arena.metrics().total_gc_count()));
            }
            let r = arena.mutate(|mc, root| -> Result<(), String> {
                for (which, (c, a)) in [(&root.cache, addrs[0]), (&*root.boxed, addrs[1])].into_iter().enumerate() {
                    if talloc::addr_allocated(a.wrapping_sub(1)) != Some(true) {
                        return Err(format!("round {round}: the shared allocation of reachable cache {which} was released"));
                    }
                    if Gc::as_ptr(c.cached_ptr()) as usize != a {
                        return Err(format!("round {round}: cached_ptr() of cache {which} moved"));
                    }
                    let z = c.alloc(mc, A1::<0>::new());
                    let y = c.alloc_zst::<A1<0>>().ok_or("alloc_zst refused a fitting type")?;
                    if Gc::as_ptr(z) as usize != a || !Gc::ptr_eq(z, y) || !c.is_cached(z) {
                        return Err(format!("round {round}: cache {which} no longer serves its shared allocation"));
                    }
                    if Gc::downgrade(z).is_dropped() || Gc::downgrade(z).upgrade(mc).is_none() {
                        return Err(format!("round {round}: the shared allocation of reachable cache {which} reports dropped"));
                    }
                }
                if let Some(w) = root.weak {
                    if w.is_dropped() || w.upgrade(mc).is_none() {
                        return Err(format!("round {round}: weak pointer to the shared allocation of a reachable cache is dead"));
                    }
                }
                Ok(())
            });
            r?;
        }
        drop(arena);
        Ok(())
    })
}

pub fn cases(thorough: bool) -> Vec<Case> {
    let mut v: Vec<Case> = vec![];
    for mode in 0..3u8 {
        for collect in 0..2u8 {
            for n in 1..=3u8 {
                v.push((format!("zst_rooted/mode{mode}/collect{collect}/cycles{n}"), Box::new(move || zst_rooted_case(mode, collect, n))));
            }
        }
    }
    let maxlen = if thorough { 3 } else { 2 };
    // all chains of identity-typed steps up to maxlen, each with every terminal conversion
    let mut chains: Vec<Vec<u8>> = vec![vec![]];
    let mut frontier: Vec<Vec<u8>> = vec![vec![]];
    for _ in 0..maxlen {
        let mut next = vec![];
        for c in &frontier {
            for s in 0..SIZED_STEPS {
                let mut c2 = c.clone();
                c2.push(s);
                next.push(c2);
            }
        }
        chains.extend(next.iter().cloned());
        frontier = next;
    }
    for c in &chains {
        for t in 0..SIZED_TERMS {
            let c2 = c.clone();
            v.push((format!("sized/{:?}/term{}", c, t), Box::new(move || sized_chain(c2.clone(), t))));
        }
    }
    for kind in 0..5u8 {
        let nsteps: u8 = if kind <= 2 { 4 } else { 3 };
        let mut chains: Vec<Vec<u8>> = vec![vec![]];
        let mut frontier: Vec<Vec<u8>> = vec![vec![]];
        for _ in 0..3 {
            let mut next = vec![];
            for c in &frontier {
                for s in 0..nsteps {
                    let mut c2 = c.clone();
                    c2.push(s);
                    next.push(c2);
                }
            }
            chains.extend(next.iter().cloned());
            frontier = next;
        }
        for c in chains {
            let c2 = c.clone();
            v.push((format!("unsized{}/{:?}", kind, c), Box::new(move || unsized_chain(kind, c2.clone()))));
        }
    }
    for k in 0..3u8 {
        v.push((format!("weak/{k}"), Box::new(move || weak_case(k))));
    }
    for phase in 0..4u8 {
        let mut hc: Vec<Vec<u8>> = vec![vec![]];
        for a in 0..SIZED_STEPS {
            hc.push(vec![a]);
            if thorough {
                for b in 0..SIZED_STEPS {
                    hc.push(vec![a, b]);
                }
            }
        }
        for c in hc {
            let c2 = c.clone();
            v.push((format!("handle/phase{}/{:?}", phase, c), Box::new(move || handle_case(phase, c2.clone()))));
        }
    }
    macro_rules! zst {
        ($ca:literal, $($z:ty),*) => {$(
            for e in 0..3u8 { v.push((format!("zst/cache{}/{}/entry{}", $ca, stringify!($z), e), Box::new(move || zst_case::<$ca, $z>(e)))); }
        )*};
    }
    zst!(1, A1<0>, A2<0>, A8<0>, A16<0>, A64<0>, A128<0>, A1<1>, A8<8>);
    zst!(8, A1<0>, A2<0>, A8<0>, A16<0>, A64<0>, A128<0>, A1<1>, A8<8>);
    zst!(64, A1<0>, A2<0>, A8<0>, A16<0>, A64<0>, A128<0>, A1<1>, A8<8>, A64<64>);
    v
}

pub fn run(thorough: bool, only: Option<&str>) -> GridOut {
    let (n, viol, names) = run_cases(cases(thorough), only);
    let nontrivial = names.iter().filter(|c| !c.contains("/[]")).count() as u64;
    GridOut {
        evaluations: n,
        nontrivial,
        rule: "all chains (length <= 2 quick / 3 thorough) of identity-typed conversions {erase_kind, downgrade+upgrade, as_thin+as_fat, as_ptr+from_ptr, as_thin_ptr+from_thin_ptr_with_kind, stash+fetch} on a sized value x terminal conversions {erase, unsize to dyn Trait, cast to repr(transparent) twin, weak erase, unsize to dyn Debug}; all chains of length <= 3 over the applicable conversions for built slice, str, header+slice, array unsized to slice, RefLock<T> unsized to RefLock<dyn Trait>; converted weak pointers; upgrade + conversions + stash in every phase with the value kept alive by the handle alone; ZstCache<1|8|64> x zero-sized types of alignment 1..128 and non-zero-sized types x alloc/alloc_static/alloc_zst; a ZstCache held in the root (inline and boxed) x {nothing else, a served pointer, a weak pointer kept} x 1..3 full cycles (plain / via start_sweeping): the shared allocation stays allocated, served and undropped. Non-trivial = at least one conversion step".into(),
        samples: names.iter().step_by((names.len() / 6).max(1)).take(6).map(|s| J::Str(s.clone())).collect(),
        violations: viol.iter().map(|(c, e)| J::obj().with("case", c.as_str()).with("message", e.as_str())).collect(),
        extra: J::obj().with("exhaustive", only.is_none()),
    }
}
