//! Exhaustive configuration / input grids on the real code (DESIGN.md 4.1): C09, C17, C18, C19.
//! usage: grid <c09|c17|c18|c19> --tier quick|thorough --out result.json [--only <case id>]
use gcv::json::J;

mod c09;
mod c17;
mod c18;
mod c19;
mod fresh;
mod maproot;

thread_local! { pub static LAST_PANIC_LOC: std::cell::RefCell<String> = const { std::cell::RefCell::new(String::new()) }; }

pub struct GridOut {
    pub evaluations: u64,
    pub nontrivial: u64,
    pub rule: String,
    pub samples: Vec<J>,
    pub violations: Vec<J>,
    pub extra: J,
}

pub fn arg(args: &[String], k: &str) -> Option<String> {
    args.iter().position(|a| a == k).and_then(|i| args.get(i + 1).cloned())
}

fn main() {
    std::panic::set_hook(Box::new(|i| {
        gcv::talloc::bypass(|| {
            let loc = i.location().map(|l| format!("{}:{}", l.file(), l.line())).unwrap_or_default();
            LAST_PANIC_LOC.with(|c| *c.borrow_mut() = loc);
        });
    }));
    let args: Vec<String> = std::env::args().collect();
    let which = args.get(1).cloned().unwrap_or_default();
    let thorough = arg(&args, "--tier").as_deref() == Some("thorough");
    let only = arg(&args, "--only");
    let t0 = std::time::Instant::now();
    let out = match which.as_str() {
        "c09" => c09::run(thorough, only.as_deref()),
        "c17" => c17::run(thorough, only.as_deref()),
        "c18" => c18::run(thorough, only.as_deref()),
        "c19" => c19::run(thorough, only.as_deref()),
        "maproot" => maproot::run(thorough, only.as_deref()),
        "fresh" => fresh::run(thorough, only.as_deref()),
        _ => {
            eprintln!("unknown grid {which}");
            std::process::exit(2)
        }
    };
    let j = J::obj()
        .with("grid", which.as_str())
        .with("evaluations", out.evaluations)
        .with("distinct_nontrivial", out.nontrivial)
        .with("rule", out.rule.as_str())
        .with("samples", J::Arr(out.samples))
        .with("violations", J::Arr(out.violations.iter().take(100000).cloned().collect()))
        .with("violation_count", out.violations.len())
        .with("extra", out.extra)
        .with("wall_s", t0.elapsed().as_secs_f64());
    let path = arg(&args, "--out").unwrap_or_else(|| "/dev/stdout".into());
    std::fs::write(&path, j.dump()).expect("write");
    eprintln!("[{which}] evaluations {} nontrivial {} violations {} wall {:.1}s", out.evaluations, out.nontrivial, out.violations.len(), t0.elapsed().as_secs_f64());
    if !out.violations.is_empty() {
        eprintln!("first violation: {}", out.violations[0].dump());
        std::process::exit(1);
    }
}
