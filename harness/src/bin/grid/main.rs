//! Exhaustive configuration / input grids on the real code (DESIGN.md 4.1): C09, C17, C18, C19.
//! usage: grid <c09|c17|c18|c19> --tier quick|thorough --out result.json [--only <case id>]
use gcv::json::J;

mod c09;
mod c17;
mod c18;
mod c19;
mod fresh;
mod maproot;
mod nested;

thread_local! { pub static LAST_PANIC_LOC: std::cell::RefCell<String> = const { std::cell::RefCell::new(String::new()) }; }

pub struct GridOut {
    pub evaluations: u64,
    pub nontrivial: u64,
    pub rule: String,
    pub samples: Vec<J>,
    pub violations: Vec<J>,
    pub extra: J,
}

/// Per-case watchdog. A case normally takes milliseconds; a case that is still running after
/// `CASE_LIMIT_SECS` means a call into the subject does not return (e.g. a debt-driven collector call
/// looping for ever). The watchdog then writes the result file with that case as the violation and
/// ends the process with exit code 1, so that a hang becomes a verdict with a replayable case instead
/// of a check that never finishes.
pub const CASE_LIMIT_SECS: u64 = 90;
pub struct Watch {
    /// per worker: (case index + 1, start in ms since `t0`); 0 = idle
    slots: Vec<(std::sync::atomic::AtomicUsize, std::sync::atomic::AtomicU64)>,
    t0: std::time::Instant,
}
impl Watch {
    pub fn begin(&self, worker: usize, case: usize) {
        use std::sync::atomic::Ordering::SeqCst;
        self.slots[worker].1.store(self.t0.elapsed().as_millis() as u64, SeqCst);
        self.slots[worker].0.store(case + 1, SeqCst);
    }
    pub fn end(&self, worker: usize) {
        self.slots[worker].0.store(0, std::sync::atomic::Ordering::SeqCst);
    }
}
static OUT_PATH: std::sync::OnceLock<String> = std::sync::OnceLock::new();
static GRID_NAME: std::sync::OnceLock<String> = std::sync::OnceLock::new();
pub fn watchdog(workers: usize, total: usize, name_of: Box<dyn Fn(usize) -> String + Send>) -> std::sync::Arc<Watch> {
    use std::sync::atomic::Ordering::SeqCst;
    let w = std::sync::Arc::new(Watch { slots: (0..workers).map(|_| Default::default()).collect(), t0: std::time::Instant::now() });
    let w2 = w.clone();
    std::thread::spawn(move || {
        loop {
            std::thread::sleep(std::time::Duration::from_millis(500));
            let now = w2.t0.elapsed().as_millis() as u64;
            for s in &w2.slots {
                let c = s.0.load(SeqCst);
                if c != 0 && now.saturating_sub(s.1.load(SeqCst)) > CASE_LIMIT_SECS * 1000 && s.0.load(SeqCst) == c {
                    let name = name_of(c - 1);
                    let msg = format!("the case did not finish within {CASE_LIMIT_SECS} s (a case takes milliseconds): a call into the library does not return");
                    let which = GRID_NAME.get().cloned().unwrap_or_default();
                    let j = J::obj()
                        .with("grid", which.as_str())
                        .with("evaluations", total as u64)
                        .with("distinct_nontrivial", 0u64)
                        .with("rule", "interrupted by the per-case watchdog")
                        .with("samples", J::Arr(vec![J::Str(name.clone())]))
                        .with("violations", J::Arr(vec![J::obj().with("case", name.as_str()).with("message", msg.as_str())]))
                        .with("violation_count", 1u64)
                        .with("extra", J::obj().with("exhaustive", false).with("watchdog", true))
                        .with("wall_s", w2.t0.elapsed().as_secs_f64());
                    let path = OUT_PATH.get().cloned().unwrap_or_else(|| "/dev/stdout".into());
                    let _ = std::fs::write(&path, j.dump());
                    eprintln!("[{which}] watchdog: case {name} {msg}");
                    std::process::exit(1);
                }
            }
        }
    });
    w
}

pub fn arg(args: &[String], k: &str) -> Option<String> {
    args.iter().position(|a| a == k).and_then(|i| args.get(i + 1).cloned())
}

fn main() {
    std::panic::set_hook(Box::new(|i| {
        gcv::talloc::bypass(|| {
            let loc = i.location().map(|l| format!("{}:{}", l.file(), l.line())).unwrap_or_default();
            LAST_PANIC_LOC.with(|c| *c.borrow_mut() = loc);
        });
    }));
    let args: Vec<String> = std::env::args().collect();
    let which = args.get(1).cloned().unwrap_or_default();
    let thorough = arg(&args, "--tier").as_deref() == Some("thorough");
    let only = arg(&args, "--only");
    let _ = OUT_PATH.set(arg(&args, "--out").unwrap_or_else(|| "/dev/stdout".into()));
    let _ = GRID_NAME.set(which.clone());
    let t0 = std::time::Instant::now();
    let out = match which.as_str() {
        "c09" => c09::run(thorough, only.as_deref()),
        "scale" => c09::run_scale(thorough, only.as_deref()),
        "c17" => c17::run(thorough, only.as_deref()),
        "c18" => c18::run(thorough, only.as_deref()),
        "c19" => c19::run(thorough, only.as_deref()),
        "maproot" => maproot::run(thorough, only.as_deref()),
        "fresh" => fresh::run(thorough, only.as_deref()),
        "nested" => nested::run(thorough, only.as_deref()),
        _ => {
            eprintln!("unknown grid {which}");
            std::process::exit(2)
        }
    };
    let j = J::obj()
        .with("grid", which.as_str())
        .with("evaluations", out.evaluations)
        .with("distinct_nontrivial", out.nontrivial)
        .with("rule", out.rule.as_str())
        .with("samples", J::Arr(out.samples))
        .with("violations", J::Arr(out.violations.iter().take(100000).cloned().collect()))
        .with("violation_count", out.violations.len())
        .with("extra", out.extra)
        .with("wall_s", t0.elapsed().as_secs_f64());
    let path = arg(&args, "--out").unwrap_or_else(|| "/dev/stdout".into());
    std::fs::write(&path, j.dump()).expect("write");
    eprintln!("[{which}] evaluations {} nontrivial {} violations {} wall {:.1}s", out.evaluations, out.nontrivial, out.violations.len(), t0.elapsed().as_secs_f64());
    if !out.violations.is_empty() {
        eprintln!("first violation: {}", out.violations[0].dump());
        std::process::exit(1);
    }
}
