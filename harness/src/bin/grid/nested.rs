//! C20, nested operations: arena B is operated on (collected, mutated, dropped, or a third arena
//! is created and dropped) from INSIDE an operation of arena A - in the destructor of one of A's
//! values while A sweeps, while A is torn down (asleep, mid-sweep, value held by the root), at the
//! end of a `rootless_mutate`, or inside A's mutate / finalize callback.
//!
//! The product exploration interleaves the two arenas at top level only; what it cannot reach is
//! per-thread state that exists only WHILE an arena operation runs (a re-entrancy flag, a shared
//! work list). Oracle, differential on the real code: B's observations (phase, Gc count, debt bits,
//! destructor log) right after the nested action and after a fixed follow-up script must equal the
//! observations of the same action issued at top level on an identically prepared B; and A's
//! observations must equal those of an identical A whose nested action does nothing.

use std::{cell::RefCell, rc::Rc};

use gc_arena::{Arena, Gc, Rootable, Static, arena::CollectionPhase as P, metrics::Metrics};
use gcv::json::J;

use crate::GridOut;

type Log = Rc<RefCell<Vec<u32>>>;
struct Tok {
    id: u32,
    log: Log,
}
impl Drop for Tok {
    fn drop(&mut self) {
        self.log.borrow_mut().push(self.id);
    }
}
type B = Arena<Rootable![Vec<Gc<'_, Static<Tok>>>]>;
type Slot = Rc<RefCell<Option<B>>>;

fn ph(p: P) -> u64 {
    match p {
        P::Sleeping => 0,
        P::Marking => 1,
        P::Marked => 2,
        P::Sweeping => 3,
    }
}

fn tok<'gc>(mc: &gc_arena::Mutation<'gc>, id: u32, log: &Log) -> Gc<'gc, Static<Tok>> {
    Gc::new(mc, Static(Tok { id, log: log.clone() }))
}

/// B with 4 reachable tokens (ids 0..4) and 4 unreachable ones (10..14), brought to `phase`:
/// 0 Sleeping before any cycle, 1 Marking, 2 Marked, 3 Sweeping, 4 Sleeping after a cycle with new garbage.
fn make_b(log: &Log, phase: u8) -> B {
    let mut b: B = Arena::new(|_| vec![]);
    b.mutate_root(|mc, r| {
        for i in 0..4 {
            r.push(tok(mc, i, log));
            tok(mc, 10 + i, log);
        }
    });
    match phase {
        0 => {}
        1 => {
            let m = b.metrics().clone();
            m.adjust_debt(1.0e6);
            let d = m.allocation_debt();
            m.adjust_debt(0.01 - d);
            let _ = b.mark_debt();
        }
        2 => {
            let _ = b.finish_marking();
        }
        3 => {
            if let Some(m) = b.finish_marking() {
                m.start_sweeping();
            }
        }
        _ => {
            b.finish_cycle();
            b.mutate(|mc, _| {
                tok(mc, 20, log);
                tok(mc, 21, log);
            });
        }
    }
    b
}

fn observe(slot: &Slot, m: &Metrics, log: &Log, out: &mut Vec<u64>) {
    out.push(slot.borrow().as_ref().map(|b| ph(b.collection_phase())).unwrap_or(9));
    out.push(m.total_gc_count() as u64);
    out.push(m.allocation_debt().to_bits());
    let l = log.borrow();
    out.push(l.len() as u64);
    out.extend(l.iter().map(|x| *x as u64));
    out.push(u64::MAX);
}

const ACTIONS: [&str; 8] = ["finish_cycle", "adjust_debt(1e6) + collect_debt", "finish_marking + start_sweeping", "allocate (2 kept, 2 garbage) + collect_debt", "drop the arena", "create, use and drop a third arena", "clear the root + 2 x finish_cycle", "nothing"];

/// The action on B, followed by an observation.
fn act(slot: &Slot, m: &Metrics, log: &Log, action: u8, out: &mut Vec<u64>) {
    {
        let mut g = slot.borrow_mut();
        match action {
            0 => g.as_mut().unwrap().finish_cycle(),
            1 => {
                m.adjust_debt(1.0e6);
                g.as_mut().unwrap().collect_debt();
            }
            2 => {
                if let Some(ma) = g.as_mut().unwrap().finish_marking() {
                    ma.start_sweeping();
                }
            }
            3 => {
                let b = g.as_mut().unwrap();
                b.mutate_root(|mc, r| {
                    r.push(tok(mc, 30, log));
                    r.push(tok(mc, 31, log));
                    tok(mc, 40, log);
                    tok(mc, 41, log);
                });
                b.collect_debt();
            }
            4 => drop(g.take()),
            5 => {
                let mut c: B = Arena::new(|mc| vec![tok(mc, 50, log)]);
                c.mutate(|mc, _| {
                    tok(mc, 51, log);
                    tok(mc, 52, log);
                });
                c.finish_cycle();
                let cm = c.metrics().clone();
                out.push(cm.total_gc_count() as u64);
                drop(c);
                out.push(cm.total_gc_count() as u64);
            }
            6 => {
                let b = g.as_mut().unwrap();
                b.mutate_root(|_, r| r.clear());
                b.finish_cycle();
                b.finish_cycle();
            }
            _ => {}
        }
    }
    observe(slot, m, log, out);
}

/// Fixed follow-up on B at top level after the action.
fn follow_up(slot: &Slot, m: &Metrics, log: &Log, out: &mut Vec<u64>) {
    if slot.borrow().is_some() {
        slot.borrow_mut().as_mut().unwrap().collect_debt();
        observe(slot, m, log, out);
        slot.borrow_mut().as_mut().unwrap().finish_cycle();
        observe(slot, m, log, out);
        slot.borrow_mut().as_mut().unwrap().finish_cycle();
        observe(slot, m, log, out);
        drop(slot.borrow_mut().take());
    }
    observe(slot, m, log, out);
}

struct Trigger {
    slot: Slot,
    m: Metrics,
    log: Log,
    action: u8,
    out: Rc<RefCell<Vec<u64>>>,
    fired: Rc<std::cell::Cell<u32>>,
}
impl Drop for Trigger {
    fn drop(&mut self) {
        self.fired.set(self.fired.get() + 1);
        let mut o = vec![];
        act(&self.slot, &self.m, &self.log, self.action, &mut o);
        self.out.borrow_mut().extend(o);
    }
}

struct RootA<'gc> {
    keep: Vec<Gc<'gc, u64>>,
    held: Option<Gc<'gc, Static<Trigger>>>,
    weak: Option<gc_arena::GcWeak<'gc, u64>>,
}
unsafe impl<'gc> gc_arena::Collect<'gc> for RootA<'gc> {
    fn trace<T: gc_arena::collect::Trace<'gc>>(&self, cc: &mut T) {
        cc.trace(&self.keep);
        cc.trace(&self.held);
        cc.trace(&self.weak);
    }
}
type A = Arena<Rootable![RootA<'_>]>;

const WHENS: [&str; 9] = [
    "destructor run by A's finish_cycle",
    "destructor run by A's collect_debt in small increments",
    "destructor run by dropping A (asleep)",
    "destructor of a value held by A's root, run by dropping A",
    "destructor run by dropping A mid-sweep",
    "destructor run at the end of rootless_mutate",
    "inside A's mutate callback",
    "inside A's finalize callback",
    "inside A's mutate_root callback, A mid-sweep",
];

/// Runs the action on B nested in an operation of A; returns (B's observations, A's observations).
fn nested(when: u8, action: u8, bphase: u8) -> Result<(Vec<u64>, Vec<u64>), String> {
    let log: Log = Rc::new(RefCell::new(vec![]));
    let b = make_b(&log, bphase);
    let m = b.metrics().clone();
    let slot: Slot = Rc::new(RefCell::new(Some(b)));
    let out = Rc::new(RefCell::new(vec![]));
    let fired = Rc::new(std::cell::Cell::new(0));
    let mk = || Trigger { slot: slot.clone(), m: m.clone(), log: log.clone(), action, out: out.clone(), fired: fired.clone() };
    let mut aobs: Vec<u64> = vec![];
    let obs_a = |a: &A, aobs: &mut Vec<u64>| {
        aobs.push(ph(a.collection_phase()));
        aobs.push(a.metrics().total_gc_count() as u64);
        aobs.push(a.metrics().allocation_debt().to_bits());
    };
    if when == 5 {
        gc_arena::arena::rootless_mutate(|mc| {
            Gc::new(mc, 1u64);
            Gc::new(mc, Static(mk()));
            Gc::new(mc, 2u64);
        });
    } else {
        let mut a: A = Arena::new(|mc| RootA { keep: (0..3).map(|i| Gc::new(mc, i)).collect(), held: None, weak: None });
        let am = a.metrics().clone();
        let in_destructor = when <= 4;
        if in_destructor {
            a.mutate_root(|mc, r| {
                Gc::new(mc, 100u64);
                let t = Gc::new(mc, Static(mk()));
                if when == 3 {
                    r.held = Some(t);
                }
                Gc::new(mc, 101u64);
            });
        }
        obs_a(&a, &mut aobs);
        match when {
            0 => {
                a.finish_cycle();
                obs_a(&a, &mut aobs);
                a.finish_cycle();
            }
            1 => {
                for _ in 0..10_000 {
                    if fired.get() > 0 {
                        break;
                    }
                    am.adjust_debt(0.3);
                    a.collect_debt();
                }
            }
            2 | 3 => {}
            4 => {
                if let Some(ma) = a.finish_marking() {
                    ma.start_sweeping();
                }
            }
            6 => {
                let mut o = vec![];
                a.mutate(|mc, _| {
                    Gc::new(mc, 7u64);
                    act(&slot, &m, &log, action, &mut o);
                    Gc::new(mc, 8u64);
                });
                out.borrow_mut().extend(o);
                fired.set(1);
            }
            7 => {
                a.mutate_root(|mc, r| {
                    r.weak = Some(Gc::downgrade(Gc::new(mc, 9u64)));
                });
                let mut o = vec![];
                if let Some(ma) = a.finish_marking() {
                    ma.finalize(|fc, r| {
                        act(&slot, &m, &log, action, &mut o);
                        let _ = r.weak.unwrap().resurrect(fc);
                    });
                }
                out.borrow_mut().extend(o);
                fired.set(1);
            }
            _ => {
                a.mutate(|mc, _| {
                    Gc::new(mc, 7u64);
                });
                if let Some(ma) = a.finish_marking() {
                    ma.start_sweeping();
                }
                let mut o = vec![];
                a.mutate_root(|mc, r| {
                    act(&slot, &m, &log, action, &mut o);
                    r.keep.push(Gc::new(mc, 8u64));
                });
                out.borrow_mut().extend(o);
                fired.set(1);
            }
        }
        obs_a(&a, &mut aobs);
        if matches!(when, 2 | 3 | 4) {
            drop(a);
        } else {
            a.finish_cycle();
            obs_a(&a, &mut aobs);
            a.finish_cycle();
            obs_a(&a, &mut aobs);
            drop(a);
        }
        aobs.push(am.total_gc_count() as u64);
    }
    if fired.get() != 1 {
        return Err(format!("the value carrying the nested action was destructed {} times", fired.get()));
    }
    let mut bobs = out.borrow().clone();
    follow_up(&slot, &m, &log, &mut bobs);
    Ok((bobs, aobs))
}

/// The same action on an identically prepared B, issued at top level.
fn reference(action: u8, bphase: u8) -> Vec<u64> {
    let log: Log = Rc::new(RefCell::new(vec![]));
    let b = make_b(&log, bphase);
    let m = b.metrics().clone();
    let slot: Slot = Rc::new(RefCell::new(Some(b)));
    let mut o = vec![];
    act(&slot, &m, &log, action, &mut o);
    follow_up(&slot, &m, &log, &mut o);
    o
}

fn describe(o: &[u64], r: &[u64]) -> String {
    let i = o.iter().zip(r).position(|(a, b)| a != b).unwrap_or(o.len().min(r.len()));
    format!("observation {i}: {:?} instead of {:?} (observations: phase (9 = no arena) / Gc count / debt bits / destructor log length, ids, separator)", o.get(i), r.get(i))
}

pub fn run(_thorough: bool, only: Option<&str>) -> GridOut {
    let mut viol: Vec<(String, String)> = vec![];
    let mut names = vec![];
    let mut n = 0u64;
    for when in 0..WHENS.len() as u8 {
        for bphase in 0..5u8 {
            // A's own observations with a nested action that does nothing
            let quiet = std::thread::spawn(move || nested(when, 7, bphase)).join().unwrap_or_else(|_| Err("panic".into()));
            for action in 0..ACTIONS.len() as u8 {
                let name = format!("nested/when{when}/action{action}/bphase{bphase}");
                if only.map(|o| o != name).unwrap_or(false) {
                    continue;
                }
                names.push(name.clone());
                n += 1;
                // (each case on its own thread: per-thread state left behind by one case cannot mask another)
                let r = std::thread::spawn(move || (nested(when, action, bphase), reference(action, bphase))).join();
                let what = format!("{} on arena B (prepared {}) issued from {}", ACTIONS[action as usize], ["Sleeping before any cycle", "Marking", "Marked", "Sweeping", "Sleeping after a cycle"][bphase as usize], WHENS[when as usize]);
                match r {
                    Err(_) => viol.push((name, format!("{what}: panic"))),
                    Ok((Err(e), _)) => viol.push((name, format!("{what}: {e}"))),
                    Ok((Ok((bobs, aobs)), refb)) => {
                        if bobs != refb {
                            viol.push((name, format!("{what}: arena B behaves differently from the same action issued at top level; {}", describe(&bobs, &refb))));
                        } else if let Ok((_, qa)) = &quiet {
                            if aobs != *qa {
                                viol.push((name, format!("{what}: arena A's phase / Gc count / debt differ from a run in which the nested action does nothing; {}", describe(&aobs, qa))));
                            }
                        } else if let Err(e) = &quiet {
                            viol.push((name, format!("{what}: the run with a nested no-op failed: {e}")));
                        }
                    }
                }
            }
        }
    }
    GridOut {
        evaluations: n,
        nontrivial: names.iter().filter(|c| !c.contains("/action7/")).count() as u64,
        rule: format!("full grid: where the operation on arena B is issued from {:?} x action on B {:?} x B prepared Sleeping (fresh) / Marking / Marked / Sweeping / Sleeping after a cycle; B's observations (phase, Gc count, debt bits, destructor log) after the action and after a fixed follow-up (collect_debt, 2 x finish_cycle, drop) must equal those of the same action issued at top level on an identically prepared B, the value carrying the action is destructed exactly once, and A's observations must equal those of a run whose nested action does nothing", WHENS, ACTIONS),
        samples: names.iter().step_by((names.len() / 6).max(1)).take(6).map(|s| J::Str(s.clone())).collect(),
        violations: viol.iter().map(|(c, e)| J::obj().with("case", c.as_str()).with("message", e.as_str())).collect(),
        extra: J::obj().with("exhaustive", only.is_none()),
    }
}
