//! C18 — builders grid: every builder kind x abandonment point x element kind x arena phase.

use std::panic::{AssertUnwindSafe, catch_unwind};

use gc_arena::{
    Collect, Gc, GcBuilder, GcSliceBuilder, GcSliceWithHeaderBuilder, GcStrBuilder, Lock, Static,
    arena::CollectionPhase as P,
};
use gcv::{json::J, talloc};

use crate::GridOut;
use crate::c17::{A, A1, A2, A4, A8, A16, A64, Case, P1, P4, P64, Payload, Root, dlog_count, dlog_len, in_window, new_arena, run_cases};

struct Chain<'gc> {
    next: Lock<Option<Gc<'gc, Chain<'gc>>>>,
}
unsafe impl<'gc> Collect<'gc> for Chain<'gc> {
    fn trace<T: gc_arena::collect::Trace<'gc>>(&self, cc: &mut T) {
        cc.trace(&self.next);
    }
}

/// Bring a fresh arena with a few rooted objects into the wanted phase.
fn arena_in_phase(phase: u8) -> Result<A, String> {
    let mut arena = new_arena();
    arena.mutate_root(|mc, root: &mut Root| {
        let mut prev = None;
        for _ in 0..3 {
            let n = Gc::new(mc, Chain { next: Lock::new(prev) });
            prev = Some(n);
        }
        root.keep.push(Gc::erase(prev.unwrap()));
        Gc::new(mc, Chain { next: Lock::new(None) }); // one piece of garbage
    });
    match phase {
        0 => {}
        1 => {
            // one increment of marking
            let m = arena.metrics();
            m.adjust_debt(1.0e6);
            let d = m.allocation_debt();
            m.adjust_debt(0.01 - d);
            let _ = arena.mark_debt();
            // (if one increment already finished marking under some other pacing, the case simply runs
            // in that phase: the phase is a variation axis, not something the oracle depends on)
        }
        2 => {
            let _ = arena.finish_marking();
        }
        _ => {
            if let Some(m) = arena.finish_marking() {
                m.start_sweeping();
            }
        }
    }
    Ok(arena)
}

struct Before {
    count: usize,
    debt: u64,
    outstanding: usize,
    phase: P,
}
fn before(arena: &A) -> Before {
    Before { count: arena.metrics().total_gc_count(), debt: arena.metrics().allocation_debt().to_bits(), outstanding: talloc::outstanding_count(), phase: arena.collection_phase() }
}
fn unchanged(arena: &A, b: &Before, what: &str) -> Result<(), String> {
    if arena.metrics().total_gc_count() != b.count {
        return Err(format!("{what}: total_gc_count changed {} -> {}", b.count, arena.metrics().total_gc_count()));
    }
    if arena.metrics().allocation_debt().to_bits() != b.debt {
        return Err(format!("{what}: allocation_debt changed {} -> {}", f64::from_bits(b.debt), arena.metrics().allocation_debt()));
    }
    if talloc::outstanding_count() != b.outstanding {
        return Err(format!("{what}: {} allocator block(s) outstanding, {} before the builder existed", talloc::outstanding_count(), b.outstanding));
    }
    if arena.collection_phase() != b.phase {
        return Err(format!("{what}: phase changed"));
    }
    let e = talloc::take_errors();
    if !e.is_empty() {
        return Err(format!("{what}: {}", e.join("; ")));
    }
    Ok(())
}
/// After the scenario: the arena still works, nothing is visited twice, everything is reclaimed.
fn epilogue(mut arena: A, expect: &[((usize, usize), usize)]) -> Result<(), String> {
    arena.finish_cycle();
    arena.finish_cycle();
    let e = talloc::take_errors();
    if !e.is_empty() {
        return Err(format!("later collection: {}", e.join("; ")));
    }
    drop(arena);
    for ((l, a), n) in expect {
        if dlog_count(*l, *a) != *n {
            return Err(format!("payload (size tag {l}, align {a}) destructed {} times in total, expected {n}", dlog_count(*l, *a)));
        }
    }
    let e = talloc::take_errors();
    if !e.is_empty() {
        return Err(format!("arena drop: {}", e.join("; ")));
    }
    Ok(())
}

/// sized GcBuilder: stage 0 = dropped fresh, 1 = into_raw/from_raw then dropped, 2 = completed
fn sized_builder<T: Payload>(stage: u8, phase: u8, via_static: bool) -> Result<(), String> {
    in_window(|| {
        let arena = arena_in_phase(phase)?;
        let b = before(&arena);
        let done = arena.mutate(|mc, _| -> Result<bool, String> {
            if via_static {
                let bld = talloc::subject(|| GcBuilder::<Static<T>>::new().unwrap_static());
                match stage {
                    0 => drop(bld),
                    1 => drop(unsafe { GcBuilder::<T>::from_raw(bld.into_raw()) }),
                    _ => {
                        let _g: Gc<T> = bld.write(mc, T::new());
                        return Ok(true);
                    }
                }
            } else {
                let bld = talloc::subject(|| GcBuilder::<T>::new());
                match stage {
                    0 => drop(bld),
                    1 => drop(unsafe { GcBuilder::<T>::from_raw(bld.into_raw()) }),
                    _ => {
                        let _g = bld.write(mc, T::new());
                        return Ok(true);
                    }
                }
            }
            Ok(false)
        })?;
        if !done {
            if dlog_len() != 0 {
                return Err("an abandoned sized builder ran a destructor on an uninitialised value".into());
            }
            unchanged(&arena, &b, "abandoned GcBuilder")?;
            epilogue(arena, &[((T::L, T::A), 0)])
        } else {
            if arena.metrics().total_gc_count() != b.count + 1 {
                return Err(format!("completed builder registered {} allocations", arena.metrics().total_gc_count() as i64 - b.count as i64));
            }
            epilogue(arena, &[((T::L, T::A), 1)])
        }
    })
}

/// header+slice builder. stage: 0 = dropped before header, 1 = dropped after header,
/// 2 + k = element constructor panics at index k (k == n completes).
/// via: 0 = built for <H, E>; 1 = built for <Static<H>, E> then unwrap_static_header; 2 = built for
/// <H, Static<E>>, unwrap_static_element after the header; 3 = both.
fn swh_builder<H: Payload, E: Payload>(n: usize, stage: usize, phase: u8, via: u8) -> Result<(), String> {
    in_window(|| {
        let arena = arena_in_phase(phase)?;
        let b = before(&arena);
        let same = (H::L, H::A) == (E::L, E::A);
        let calls = std::cell::Cell::new(0usize);
        let r = catch_unwind(AssertUnwindSafe(|| {
            arena.mutate(|mc, _| -> bool {
                macro_rules! rest {
                    ($bld:expr, $($unwrap_elem:ident)?) => {{
                        let bld = $bld;
                        if stage == 0 {
                            drop(bld);
                            return false;
                        }
                        let sb = bld.write_header(H::new())$(.$unwrap_elem())?;
                        if stage == 1 {
                            drop(sb);
                            return false;
                        }
                        let k = stage - 2;
                        let g = sb.write_slice_with(mc, |i| {
                            assert_eq!(i, calls.get(), "constructor called out of order");
                            calls.set(calls.get() + 1);
                            if i == k {
                                std::panic::resume_unwind(Box::new(7u8));
                            }
                            E::new()
                        });
                        assert_eq!(g.slice.len(), n);
                        // (the completed value stays valid for the rest of the callback: more blocks of the
                        // same size are requested while it is alive)
                        let mut again = GcSliceWithHeaderBuilder::<H, E>::new(n);
                        assert_ne!(Gc::as_ptr(g) as *const u8 as usize, again.header_ptr() as usize, "a later builder was given the block of a live allocation");
                        true
                    }};
                }
                match via {
                    0 => rest!(talloc::subject(|| GcSliceWithHeaderBuilder::<H, E>::new(n)),),
                    1 => rest!(talloc::subject(|| GcSliceWithHeaderBuilder::<Static<H>, E>::new(n).unwrap_static_header()),),
                    2 => rest!(talloc::subject(|| GcSliceWithHeaderBuilder::<H, Static<E>>::new(n)), unwrap_static_element),
                    _ => rest!(talloc::subject(|| GcSliceWithHeaderBuilder::<Static<H>, Static<E>>::new(n).unwrap_static_header()), unwrap_static_element),
                }
            })
        }));
        let completed = matches!(r, Ok(true));
        drop(r); // (frees the panic payload before blocks are counted)
        let (hd, ed) = match stage {
            0 => (0, 0),
            1 => (1, 0),
            s => (1, (s - 2).min(n)),
        };
        if stage >= 2 && calls.get() != (stage - 2 + 1).min(n) {
            return Err(format!("element constructor called {} times for n = {n}, panic index {}", calls.get(), stage - 2));
        }
        let (hd, ed) = (if H::DROPS { hd } else { 0 }, if E::DROPS { ed } else { 0 });
        let n_e = if E::DROPS { n } else { 0 };
        let n_h = if H::DROPS { 1 } else { 0 };
        if completed != (stage >= 2 && stage - 2 >= n) {
            return Err(format!("builder completion = {completed} at stage {stage} of n = {n}"));
        }
        if !completed {
            let exp_h = if same { hd + ed } else { hd };
            if dlog_count(H::L, H::A) != exp_h || (!same && dlog_count(E::L, E::A) != ed) {
                return Err(format!(
                    "abandoned at stage {stage} (n = {n}): header destructed {} times (expected {hd}), elements {} (expected {ed})",
                    if same { dlog_count(H::L, H::A).min(hd) } else { dlog_count(H::L, H::A) },
                    if same { dlog_count(H::L, H::A).saturating_sub(hd) } else { dlog_count(E::L, E::A) }
                ));
            }
            unchanged(&arena, &b, "abandoned header+slice builder")?;
            let mut exp = vec![((H::L, H::A), exp_h)];
            if !same {
                exp.push(((E::L, E::A), ed));
            }
            epilogue(arena, &exp)
        } else {
            if arena.metrics().total_gc_count() != b.count + 1 {
                return Err("completed header+slice builder did not register exactly one allocation".into());
            }
            if dlog_len() != 0 {
                return Err("completing the builder ran a destructor".into());
            }
            let mut exp = vec![((H::L, H::A), if same { n_h + n_e } else { n_h })];
            if !same {
                exp.push(((E::L, E::A), n_e));
            }
            epilogue(arena, &exp)
        }
    })
}

/// plain slice builder; stage 0 = dropped fresh, 1 + k = constructor panics at k (k == n completes)
fn slice_builder<E: Payload>(n: usize, stage: usize, phase: u8, via_static: bool) -> Result<(), String> {
    in_window(|| {
        let arena = arena_in_phase(phase)?;
        let b = before(&arena);
        let calls = std::cell::Cell::new(0usize);
        let r = catch_unwind(AssertUnwindSafe(|| {
            arena.mutate(|mc, _| -> bool {
                let k = stage.wrapping_sub(1);
                let ctor = |i: usize| {
                    assert_eq!(i, calls.get(), "constructor called out of order");
                    calls.set(calls.get() + 1);
                    if i == k {
                        std::panic::resume_unwind(Box::new(7u8));
                    }
                    E::new()
                };
                if via_static {
                    let bld = talloc::subject(|| GcSliceBuilder::<Static<E>>::new(n).unwrap_static());
                    if stage == 0 {
                        drop(bld);
                        return false;
                    }
                    assert_eq!(bld.write_slice_with(mc, ctor).len(), n);
                } else {
                    let bld = talloc::subject(|| GcSliceBuilder::<E>::new(n));
                    if stage == 0 {
                        drop(bld);
                        return false;
                    }
                    assert_eq!(bld.write_slice_with(mc, ctor).len(), n);
                }
                true
            })
        }));
        let completed = matches!(r, Ok(true));
        drop(r); // (frees the panic payload before blocks are counted)
        let ed = if stage == 0 || !E::DROPS { 0 } else { (stage - 1).min(n) };
        if stage >= 1 && calls.get() != stage.min(n) {
            return Err(format!("element constructor called {} times for n = {n}, panic index {}", calls.get(), stage - 1));
        }
        if completed != (stage >= 1 && stage - 1 >= n) {
            return Err(format!("slice builder completion = {completed} at stage {stage} of n = {n}"));
        }
        if !completed {
            if dlog_count(E::L, E::A) != ed {
                return Err(format!("abandoned after {ed} of {n} elements: {} element destructors ran", dlog_count(E::L, E::A)));
            }
            unchanged(&arena, &b, "abandoned slice builder")?;
            epilogue(arena, &[((E::L, E::A), ed)])
        } else {
            if arena.metrics().total_gc_count() != b.count + 1 {
                return Err("completed slice builder did not register exactly one allocation".into());
            }
            epilogue(arena, &[((E::L, E::A), if E::DROPS { n } else { 0 })])
        }
    })
}

/// header with destructor + Copy elements through copy_slice, source of length n + delta
fn swh_copy_case<H: Payload>(n: usize, delta: i64, phase: u8) -> Result<(), String> {
    in_window(|| {
        let arena = arena_in_phase(phase)?;
        let b = before(&arena);
        let src_len = (n as i64 + delta).max(0) as usize;
        if delta != 0 && src_len == n {
            return Ok(());
        }
        let r = catch_unwind(AssertUnwindSafe(|| {
            arena.mutate(|mc, _| {
                let s: Vec<u32> = (0..src_len as u32).map(|i| i * 5 + 2).collect();
                let g = talloc::subject(|| GcSliceWithHeaderBuilder::<H, u32>::new(n).write_header(H::new())).copy_slice(mc, &s);
                assert_eq!(&g.slice, s.as_slice());
            })
        }));
        let ok = r.is_ok();
        drop(r);
        if ok != (delta == 0) {
            return Err(format!("copy_slice with source length {src_len} into a header+slice builder of length {n}: panicked = {}", !ok));
        }
        if !ok {
            if dlog_count(H::L, H::A) != 1 {
                return Err(format!("rejected copy_slice: header destructed {} times, expected exactly once", dlog_count(H::L, H::A)));
            }
            unchanged(&arena, &b, "copy_slice with a source of the wrong length (header+slice)")?;
        } else if arena.metrics().total_gc_count() != b.count + 1 {
            return Err("completed copy builder did not register exactly one allocation".into());
        }
        epilogue(arena, &[((H::L, H::A), 1)])
    })
}

/// Copy element types of every alignment for copy_slice behind a header (padding between header and slice)
trait CopyElem: Copy + PartialEq + std::fmt::Debug + for<'gc> Collect<'gc> + 'static {
    fn mk(i: usize) -> Self;
}
macro_rules! copy_int { ($($t:ty),*) => {$( impl CopyElem for $t { fn mk(i: usize) -> Self { (i as $t).wrapping_mul(37).wrapping_add(0xA1) } } )*}; }
copy_int!(u8, u16, u32, u64);
#[derive(Clone, Copy, PartialEq, Debug)]
#[repr(align(16))]
struct C16(u8);
#[derive(Clone, Copy, PartialEq, Debug)]
#[repr(align(64))]
struct C64(u16);
unsafe impl<'gc> Collect<'gc> for C16 {
    const NEEDS_TRACE: bool = false;
}
unsafe impl<'gc> Collect<'gc> for C64 {
    const NEEDS_TRACE: bool = false;
}
impl CopyElem for C16 {
    fn mk(i: usize) -> Self {
        C16(i as u8 ^ 0x5A)
    }
}
impl CopyElem for C64 {
    fn mk(i: usize) -> Self {
        C64(i as u16 ^ 0x5A5A)
    }
}

/// copy_slice into header+slice for every header size / element alignment combination: the elements land
/// where the slice is read from (behind the padding), aligned, equal to the source; the header is intact.
fn swh_copy_layout_case<H: Payload, E: CopyElem>(n: usize, phase: u8) -> Result<(), String> {
    in_window(|| {
        let arena = arena_in_phase(phase)?;
        let b = before(&arena);
        let src: Vec<E> = (0..n).map(E::mk).collect();
        let r = catch_unwind(AssertUnwindSafe(|| {
            arena.mutate(|mc, _| -> Result<(), String> {
                let g = talloc::subject(|| GcSliceWithHeaderBuilder::<H, E>::new(n).write_header(H::new())).copy_slice(mc, &src);
                let hp = &g.header as *const H as usize;
                let sp = g.slice.as_ptr() as usize;
                if sp % std::mem::align_of::<E>() != 0 {
                    return Err(format!("slice at {sp:#x} is not aligned to {}", std::mem::align_of::<E>()));
                }
                if hp % std::mem::align_of::<H>() != 0 {
                    return Err(format!("header at {hp:#x} is not aligned to {}", std::mem::align_of::<H>()));
                }
                if sp < hp + std::mem::size_of::<H>() {
                    return Err("slice overlaps the header".into());
                }
                if g.slice.len() != n || g.slice != src[..] {
                    return Err(format!("slice reads {:?}, copied from {:?}", &g.slice, src));
                }
                // the header's bytes (all zero from H::new()) were not written over
                let hb = unsafe { std::slice::from_raw_parts(hp as *const u8, std::mem::size_of::<H>()) };
                if hb.iter().any(|x| *x != 0) {
                    return Err("copy_slice wrote into the header".into());
                }
                Ok(())
            })
        }));
        match r {
            Ok(r) => r?,
            Err(_) => return Err("copy_slice with a source of the right length panicked".into()),
        }
        if arena.metrics().total_gc_count() != b.count + 1 {
            return Err("completed copy builder did not register exactly one allocation".into());
        }
        epilogue(arena, &[((H::L, H::A), 1)])
    })
}

/// copy_slice with a zero-sized Copy element type: the length check must not be by byte size
fn zst_copy_case(n: usize, delta: i64, phase: u8) -> Result<(), String> {
    in_window(|| {
        let arena = arena_in_phase(phase)?;
        let b = before(&arena);
        let src_len = (n as i64 + delta).max(0) as usize;
        if delta != 0 && src_len == n {
            return Ok(());
        }
        let r = catch_unwind(AssertUnwindSafe(|| {
            arena.mutate(|mc, _| {
                let src = vec![(); src_len];
                let g = talloc::subject(|| GcSliceBuilder::<()>::new(n)).copy_slice(mc, &src);
                g.len()
            })
        }));
        let got = r.as_ref().ok().copied();
        drop(r);
        match (got, delta) {
            (Some(l), 0) if l == n => {}
            (None, d) if d != 0 => unchanged(&arena, &b, "copy_slice of zero-sized elements with a source of the wrong length")?,
            (Some(l), d) => return Err(format!("copy_slice::<()> with source length {src_len} into a builder of length {n} (delta {d}) produced a slice of length {l} instead of being rejected")),
            (None, _) => return Err("copy_slice::<()> with the correct length panicked".into()),
        }
        epilogue(arena, &[])
    })
}

/// copy_slice / copy_str with a source of length n + delta; str builder dropped fresh (delta = 99)
fn copy_case(n: usize, delta: i64, phase: u8, is_str: bool) -> Result<(), String> {
    in_window(|| {
        let arena = arena_in_phase(phase)?;
        let b = before(&arena);
        let src_len = if delta == 99 { 0 } else { (n as i64 + delta).max(0) as usize };
        if delta != 99 && delta != 0 && src_len == n {
            return Ok(());
        }
        let r = catch_unwind(AssertUnwindSafe(|| {
            arena.mutate(|mc, _| -> bool {
                if is_str {
                    let bld = talloc::subject(|| GcStrBuilder::new(n));
                    if delta == 99 {
                        drop(bld);
                        return false;
                    }
                    let s: String = (0..src_len).map(|i| (b'a' + (i % 26) as u8) as char).collect();
                    let g = bld.copy_str(mc, &s);
                    assert_eq!(&*g, s.as_str());
                } else {
                    let bld = talloc::subject(|| GcSliceBuilder::<u32>::new(n));
                    if delta == 99 {
                        drop(bld);
                        return false;
                    }
                    let s: Vec<u32> = (0..src_len as u32).map(|i| i * 3 + 1).collect();
                    let g = bld.copy_slice(mc, &s);
                    assert_eq!(&*g, s.as_slice());
                }
                true
            })
        }));
        let r: Result<bool, ()> = r.map_err(drop);
        match (r, delta) {
            (Ok(true), 0) => {
                if arena.metrics().total_gc_count() != b.count + 1 {
                    return Err("completed copy builder did not register exactly one allocation".into());
                }
            }
            (Ok(false), 99) => unchanged(&arena, &b, "abandoned str/slice builder")?,
            (Err(_), d) if d != 0 && d != 99 => unchanged(&arena, &b, "copy with a source of the wrong length")?,
            (Ok(_), d) => return Err(format!("copy with source length {src_len} into a builder of length {n} (delta {d}) did not panic")),
            (Err(_), _) => return Err("copy with the correct length panicked".into()),
        }
        epilogue(arena, &[])
    })
}

pub fn cases(thorough: bool) -> Vec<Case> {
    let mut v: Vec<Case> = vec![];
    let nmax = if thorough { 6 } else { 4 };
    for phase in 0..4u8 {
        macro_rules! sized {
            ($t:ty) => {
                for stage in 0..3u8 { for st in [false, true] {
                    v.push((format!("sized/{}/stage{}/phase{}/static{}", stringify!($t), stage, phase, st), Box::new(move || sized_builder::<$t>(stage, phase, st))));
                } }
            };
        }
        sized!(A8<8>);
        sized!(A1<0>);
        sized!(A64<64>);
        sized!(A1<3>);
        macro_rules! swh {
            ($h:ty, $e:ty) => {
                for n in 0..=nmax { for stage in 0..=(n + 2) { for via in 0..4u8 {
                    if via > 0 && n > 3 { continue; }
                    v.push((format!("swh/{}/{}/n{}/stage{}/phase{}{}", stringify!($h), stringify!($e), n, stage, phase, ["", "/static_header", "/static_element", "/static_both"][via as usize]), Box::new(move || swh_builder::<$h, $e>(n, stage, phase, via))));
                } } }
            };
        }
        swh!(A8<8>, A8<8>);
        swh!(A8<8>, A1<3>);
        swh!(A1<0>, A8<8>);
        swh!(A8<8>, A1<0>);
        swh!(A64<64>, A1<3>);
        swh!(A1<3>, A64<64>);
        swh!(A1<0>, A64<0>);
        swh!(A8<8>, P4<4>);
        swh!(A8<8>, P1<0>);
        swh!(A1<3>, P64<64>);
        swh!(P4<4>, A8<8>);
        for n in [0usize, 1, 3] {
            for delta in [-1i64, 0, 1] {
                v.push((format!("swhcopy/A8<8>/n{n}/delta{delta}/phase{phase}"), Box::new(move || swh_copy_case::<A8<8>>(n, delta, phase))));
                v.push((format!("swhcopy/A64<64>/n{n}/delta{delta}/phase{phase}"), Box::new(move || swh_copy_case::<A64<64>>(n, delta, phase))));
            }
        }
        macro_rules! swhl {
            ($h:ty; $($e:ty),*) => {$(
                for n in [0usize, 1, 3] {
                    v.push((format!("swhcopylayout/{}/{}/n{}/phase{}", stringify!($h), stringify!($e), n, phase), Box::new(move || swh_copy_layout_case::<$h, $e>(n, phase))));
                }
            )*};
        }
        swhl!(A1<1>; u8, u16, u32, u64, C16, C64);
        swhl!(A1<3>; u8, u16, u32, u64, C16, C64);
        swhl!(A2<2>; u8, u32, u64, C16);
        swhl!(A4<4>; u16, u64, C16, C64);
        swhl!(A8<8>; u8, C16, C64);
        swhl!(A1<0>; u8, u64, C64);
        swhl!(A16<16>; u8, u32, C64);
        macro_rules! sl {
            ($e:ty) => {
                for n in 0..=nmax { for stage in 0..=(n + 1) { for st in [false, true] {
                    v.push((format!("slice/{}/n{}/stage{}/phase{}/static{}", stringify!($e), n, stage, phase, st), Box::new(move || slice_builder::<$e>(n, stage, phase, st))));
                } } }
            };
        }
        sl!(A8<8>);
        sl!(A1<0>);
        sl!(A64<64>);
        sl!(A1<3>);
        sl!(P4<4>);
        sl!(P1<0>);
        for n in [0usize, 1, 3, 5] {
            for delta in [-2i64, -1, 0, 1, 2] {
                v.push((format!("copy/zst/n{n}/delta{delta}/phase{phase}"), Box::new(move || zst_copy_case(n, delta, phase))));
            }
        }
        for n in [0usize, 1, 3, 8] {
            for delta in [-1i64, 0, 1, 99] {
                for is_str in [false, true] {
                    v.push((format!("copy/{}/n{n}/delta{delta}/phase{phase}", if is_str { "str" } else { "u32" }), Box::new(move || copy_case(n, delta, phase, is_str))));
                }
            }
        }
    }
    v
}

pub fn run(thorough: bool, only: Option<&str>) -> GridOut {
    let (n, viol, names) = run_cases(cases(thorough), only);
    let nontrivial = names.iter().filter(|c| !c.contains("/stage0/")).count() as u64;
    GridOut {
        evaluations: n,
        nontrivial,
        rule: "full grid: builder kind (GcBuilder, GcBuilder<Static>.unwrap_static, GcSliceBuilder (+Static), GcSliceWithHeaderBuilder (+Static header / Static elements / both, unwrapped), GcStrBuilder, copy_slice, copy_str) x abandonment point (fresh, after header, constructor panic at every index k <= n, completed) x element kind (destructor token, zero-sized, over-aligned 64, odd size) x n <= 4 x arena phase (Sleeping, Marking, Marked, Sweeping) x copy source length n-1 / n / n+1; copy_slice behind a header for 7 header layouts x Copy element alignments 1..64 (padding between header and slice): elements land aligned where the slice reads them, header bytes untouched. Non-trivial = at least one part initialised".into(),
        samples: names.iter().step_by((names.len() / 6).max(1)).take(6).map(|s| J::Str(s.clone())).collect(),
        violations: viol.iter().map(|(c, e)| J::obj().with("case", c.as_str()).with("message", e.as_str())).collect(),
        extra: J::obj().with("exhaustive", only.is_none()),
    }
}
