//! Root re-typing grid (C06 / C01 / C08): `map_root` / `try_map_root` change the TYPE of the root,
//! in particular between a type that needs no tracing (`Static<_>`, `()`) and one that holds
//! pointers. Every sequence of collector / allocation operations up to a bound runs before the
//! re-typing, every sequence up to a bound after it; the objects the new root holds must survive,
//! must not be reported dead by a MarkedArena, and everything else must be reclaimed.
//!
//! The explorer covers `map_root` in every collector state for ONE root type; what it cannot reach
//! is collector bookkeeping that depends on the root *type* (e.g. a "root needs tracing" flag).

use std::cell::RefCell;

use gc_arena::{Arena, Collect, Gc, Lock, Mutation, Rootable, Static, arena::CollectionPhase as P, arena::Root as RootOf, collect::Trace};
use gcv::json::J;

use crate::GridOut;
use crate::c17::{Case, run_cases};

thread_local! { static DROPS: RefCell<Vec<u32>> = const { RefCell::new(Vec::new()) }; }
fn dropped(id: u32) -> usize {
    DROPS.with(|d| d.borrow().iter().filter(|x| **x == id).count())
}
struct Tk(u32);
impl Drop for Tk {
    fn drop(&mut self) {
        let id = self.0;
        DROPS.with(|d| d.borrow_mut().push(id));
    }
}

struct Node<'gc> {
    id: u32,
    _tk: Tk,
    next: Lock<Option<Gc<'gc, Node<'gc>>>>,
}
unsafe impl<'gc> Collect<'gc> for Node<'gc> {
    fn trace<T: Trace<'gc>>(&self, cc: &mut T) {
        cc.trace(&self.next);
    }
}
fn node<'gc>(mc: &Mutation<'gc>, id: u32, next: Option<Gc<'gc, Node<'gc>>>) -> Gc<'gc, Node<'gc>> {
    Gc::new(mc, Node { id, _tk: Tk(id), next: Lock::new(next) })
}

/// a pointer-holding root: a chain head (two objects: head -> tail)
struct Holder<'gc> {
    head: Gc<'gc, Node<'gc>>,
}
unsafe impl<'gc> Collect<'gc> for Holder<'gc> {
    fn trace<T: Trace<'gc>>(&self, cc: &mut T) {
        cc.trace(&self.head);
    }
}
type RH = Rootable![Holder<'_>];
type RS = Rootable![Static<u32>];
type RU = Rootable![()];
type RO = Rootable![Option<Gc<'_, Node<'_>>>];

/// operations between re-typings: G allocate garbage, S one collect_debt increment, Y one cycle_debt
/// increment, M finish_marking, W finish_marking + start_sweeping, C finish_cycle
const OPS: [char; 6] = ['G', 'S', 'Y', 'M', 'W', 'C'];

struct Ctx {
    next_id: u32,
    garbage: Vec<u32>,
    held: Vec<u32>,
    log: String,
}

fn eps<R: for<'a> Rootable<'a>>(arena: &Arena<R>) -> bool {
    let m = arena.metrics();
    if m.total_gc_count() == 0 {
        return false;
    }
    m.adjust_debt(1.0e6);
    let d = m.allocation_debt();
    m.adjust_debt(0.01 - d);
    true
}

fn check_held(cx: &Ctx, at: &str) -> Result<(), String> {
    for h in &cx.held {
        if dropped(*h) > 0 {
            return Err(format!("[{}] after {at}: object {h} held by the root was destructed", cx.log));
        }
    }
    Ok(())
}

fn apply<R>(arena: &mut Arena<R>, cx: &mut Ctx, op: char, dead_check: &dyn for<'gc> Fn(&gc_arena::Finalization<'gc>, &'gc RootOf<'gc, R>) -> bool) -> Result<(), String>
where
    R: for<'a> Rootable<'a> + 'static,
    for<'a> RootOf<'a, R>: Collect<'a> + Sized,
{
    cx.log.push(op);
    match op {
        'G' => {
            let id = cx.next_id;
            cx.next_id += 1;
            cx.garbage.push(id);
            arena.mutate(|mc, _| {
                node(mc, id, None);
            });
        }
        'S' => {
            if eps(arena) {
                arena.collect_debt();
            }
        }
        'Y' => {
            if eps(arena) {
                arena.cycle_debt();
            }
        }
        'M' | 'W' => {
            let was = arena.collection_phase();
            match arena.finish_marking() {
                #[allow(unused_mut)]
                Some(mut m) => {
                    let dead = m.finalize(|fc, root| dead_check(fc, root));
                    if dead {
                        return Err(format!("[{}] a MarkedArena reports an object held by the root as dead", cx.log));
                    }
                    if op == 'W' {
                        arena.finish_marking().expect("still marked").start_sweeping();
                        if arena.collection_phase() != P::Sweeping {
                            return Err(format!("[{}] start_sweeping did not end Sweeping", cx.log));
                        }
                    }
                }
                None => {
                    if was != P::Sweeping {
                        return Err(format!("[{}] finish_marking returned None outside Sweeping", cx.log));
                    }
                }
            }
        }
        'C' => {
            arena.finish_cycle();
            if arena.collection_phase() != P::Sleeping {
                return Err(format!("[{}] finish_cycle did not end Sleeping", cx.log));
            }
        }
        _ => unreachable!(),
    }
    check_held(cx, "the operation")
}

fn settle<R>(arena: &mut Arena<R>, cx: &mut Ctx) -> Result<(), String>
where
    R: for<'a> Rootable<'a>,
    for<'a> RootOf<'a, R>: Collect<'a> + Sized,
{
    cx.log.push_str("|CC");
    arena.finish_cycle();
    arena.finish_cycle();
    check_held(cx, "two finish_cycle calls")?;
    for g in &cx.garbage {
        if dropped(*g) != 1 {
            return Err(format!("[{}] unreachable object {g} destructed {} times after two finish_cycle calls", cx.log, dropped(*g)));
        }
    }
    let want = cx.held.len();
    if arena.metrics().total_gc_count() != want {
        return Err(format!("[{}] total_gc_count() = {} with {want} reachable objects", cx.log, arena.metrics().total_gc_count()));
    }
    Ok(())
}

fn seqs(max: usize) -> Vec<String> {
    let mut out = vec![String::new()];
    let mut lvl = vec![String::new()];
    for _ in 0..max {
        let mut nx = vec![];
        for s in &lvl {
            for o in OPS {
                let mut t = s.clone();
                t.push(o);
                nx.push(t);
            }
        }
        out.extend(nx.iter().cloned());
        lvl = nx;
    }
    out
}

fn no_dead<'gc, T>(_: &gc_arena::Finalization<'gc>, _: &'gc T) -> bool {
    false
}
fn holder_dead<'gc>(fc: &gc_arena::Finalization<'gc>, root: &'gc Holder<'gc>) -> bool {
    Gc::is_dead(fc, root.head) || root.head.next.get().map(|n| Gc::is_dead(fc, n)).unwrap_or(false)
}
fn opt_dead<'gc>(fc: &gc_arena::Finalization<'gc>, root: &'gc Option<Gc<'gc, Node<'gc>>>) -> bool {
    root.map(|g| Gc::is_dead(fc, g)).unwrap_or(false)
}

fn to_holder<'gc, T>(mc: &Mutation<'gc>, _old: T, cx: &mut Ctx) -> Holder<'gc> {
    make_holder(mc, cx)
}
/// the pointer-holding root is replaced by plain data: its chain becomes garbage
fn to_static<'gc, T>(_mc: &Mutation<'gc>, _old: T, cx: &mut Ctx) -> Static<u32> {
    let h = std::mem::take(&mut cx.held);
    cx.garbage.extend(h);
    Static(9)
}
/// keep only the head's tail: the head becomes garbage, the tail stays
fn to_tail<'gc>(_mc: &Mutation<'gc>, old: Holder<'gc>, cx: &mut Ctx) -> Option<Gc<'gc, Node<'gc>>> {
    let h = cx.held.remove(0);
    cx.garbage.push(h);
    old.head.next.get()
}
/// the new pointer-holding root adopts a chain allocated in the callback
fn make_holder<'gc>(mc: &Mutation<'gc>, cx: &mut Ctx) -> Holder<'gc> {
    let (a, b) = (cx.next_id, cx.next_id + 1);
    cx.next_id += 2;
    cx.held = vec![a, b];
    let tail = node(mc, b, None);
    Holder { head: node(mc, a, Some(tail)) }
}

fn read_holder(arena: &Arena<RH>, cx: &Ctx) -> Result<(), String> {
    arena.mutate(|_, root| {
        if root.head.id != cx.held[0] || root.head.next.get().map(|n| n.id) != Some(cx.held[1]) {
            return Err(format!("[{}] the root's chain reads other values", cx.log));
        }
        Ok(())
    })
}

fn finish<R>(arena: Arena<R>, cx: &Ctx) -> Result<(), String>
where
    R: for<'a> Rootable<'a>,
    for<'a> RootOf<'a, R>: Sized,
{
    let m = arena.metrics().clone();
    drop(arena);
    for id in 0..cx.next_id {
        if dropped(id) != 1 {
            return Err(format!("[{}] object {id} destructed {} times over the arena's lifetime", cx.log, dropped(id)));
        }
    }
    if m.total_gc_count() != 0 {
        return Err(format!("[{}] total_gc_count() = {} after the arena was dropped", cx.log, m.total_gc_count()));
    }
    Ok(())
}

/// shape 0: Static<u32> -> Holder;  shape 1: () -> Holder;  shape 2: Holder -> Static<u32> -> Holder;
/// shape 3: Option<Gc> (None) -> Holder -> Option<Gc> (Some(head))
fn one(shape: u8, try_variant: bool, a: &str, b: &str) -> Result<(), String> {
    DROPS.with(|d| d.borrow_mut().clear());
    let mut cx = Ctx { next_id: 0, garbage: vec![], held: vec![], log: String::new() };
    macro_rules! remap {
        ($arena:expr, $to:ty, $f:expr) => {{
            cx.log.push_str(if try_variant { ">try_map_root>" } else { ">map_root>" });
            let cxr = &mut cx;
            if try_variant {
                match $arena.try_map_root::<$to, ()>(|mc, old| Ok($f(mc, old, cxr))) {
                    Ok(a) => a,
                    Err(()) => unreachable!(),
                }
            } else {
                $arena.map_root::<$to>(|mc, old| $f(mc, old, cxr))
            }
        }};
    }
    match shape {
        0 | 1 => {
            if shape == 0 {
                let mut arena = Arena::<RS>::new(|_| Static(7));
                for o in a.chars() {
                    apply(&mut arena, &mut cx, o, &no_dead)?;
                }
                let mut arena = remap!(arena, RH, to_holder);
                check_held(&cx, "the re-typing")?;
                for o in b.chars() {
                    apply(&mut arena, &mut cx, o, &holder_dead)?;
                    read_holder(&arena, &cx)?;
                }
                settle(&mut arena, &mut cx)?;
                read_holder(&arena, &cx)?;
                finish(arena, &cx)
            } else {
                let mut arena = Arena::<RU>::new(|_| ());
                for o in a.chars() {
                    apply(&mut arena, &mut cx, o, &no_dead)?;
                }
                let mut arena = remap!(arena, RH, to_holder);
                check_held(&cx, "the re-typing")?;
                for o in b.chars() {
                    apply(&mut arena, &mut cx, o, &holder_dead)?;
                    read_holder(&arena, &cx)?;
                }
                settle(&mut arena, &mut cx)?;
                read_holder(&arena, &cx)?;
                finish(arena, &cx)
            }
        }
        2 => {
            let mut arena = Arena::<RH>::new(|mc| make_holder(mc, &mut cx));
            for o in a.chars() {
                apply(&mut arena, &mut cx, o, &holder_dead)?;
            }
            let mut arena = remap!(arena, RS, to_static);
            for o in a.chars() {
                apply(&mut arena, &mut cx, o, &no_dead)?;
            }
            let mut arena = remap!(arena, RH, to_holder);
            check_held(&cx, "the re-typing")?;
            for o in b.chars() {
                apply(&mut arena, &mut cx, o, &holder_dead)?;
                read_holder(&arena, &cx)?;
            }
            settle(&mut arena, &mut cx)?;
            read_holder(&arena, &cx)?;
            finish(arena, &cx)
        }
        _ => {
            let mut arena = Arena::<RO>::new(|_| None);
            for o in a.chars() {
                apply(&mut arena, &mut cx, o, &opt_dead)?;
            }
            let mut arena = remap!(arena, RH, to_holder);
            check_held(&cx, "the re-typing")?;
            for o in b.chars() {
                apply(&mut arena, &mut cx, o, &holder_dead)?;
            }
            let mut arena = remap!(arena, RO, to_tail);
            check_held(&cx, "the re-typing")?;
            for o in b.chars() {
                apply(&mut arena, &mut cx, o, &opt_dead)?;
            }
            settle(&mut arena, &mut cx)?;
            finish(arena, &cx)
        }
    }
}

fn cases(thorough: bool) -> Vec<Case> {
    let (la, lb) = if thorough { (5, 5) } else { (4, 4) };
    let mut v: Vec<Case> = vec![];
    for shape in 0..4u8 {
        for tv in [false, true] {
            for a in seqs(la) {
                let name = format!("maproot/shape{shape}/{}/[{a}]", if tv { "try_map_root" } else { "map_root" });
                v.push((
                    name,
                    Box::new(move || {
                        let r = std::panic::catch_unwind(|| {
                            for b in seqs(lb) {
                                one(shape, tv, &a, &b)?;
                            }
                            Ok(())
                        });
                        match r {
                            Ok(r) => r,
                            Err(p) => Err(format!("panic at {}: {}", crate::LAST_PANIC_LOC.with(|c| c.borrow().clone()), gcv::wops::panic_msg(&p))),
                        }
                    }),
                ));
            }
        }
    }
    v
}

pub fn run(thorough: bool, only: Option<&str>) -> GridOut {
    let (la, lb) = if thorough { (5, 5) } else { (4, 4) };
    let inner = seqs(lb).len() as u64;
    let (n, viol, names) = run_cases(cases(thorough), only);
    GridOut {
        evaluations: n * inner,
        nontrivial: names.iter().filter(|c| !c.ends_with("/[]")).count() as u64 * (inner - 1),
        rule: format!(
            "root re-typing: 4 shapes (Static<u32> -> pointer-holding root; () -> pointer-holding root; pointer-holding -> Static<u32> -> pointer-holding; Option<Gc> None -> pointer-holding -> Option<Gc> Some) x {{map_root, try_map_root}} x every sequence of length <= {la} over {{allocate garbage, collect_debt increment, cycle_debt increment, finish_marking (+finalize: held objects not dead), start_sweeping, finish_cycle}} before the re-typing x every such sequence of length <= {lb} after it; after every operation the objects held by the new root are undestructed and read back, finally two finish_cycle calls leave exactly them, and dropping the arena destructs every object exactly once. Non-trivial = at least one operation on each side"
        ),
        samples: names.iter().step_by((names.len() / 6).max(1)).take(6).map(|s| J::Str(s.clone())).collect(),
        violations: viol.iter().map(|(c, e)| J::obj().with("case", c.as_str()).with("message", e.as_str())).collect(),
        extra: J::obj().with("exhaustive", only.is_none()),
    }
}
