//! C09 — pacing grid: debt-driven calls pay their debt, cycles complete within the documented
//! bound, stop-the-world pacing, sleep rule. Every configuration of the grid is run on the real
//! arena for a fixed number of rounds, each round starting from the state the previous one left.

use std::sync::Mutex;
use std::sync::atomic::{AtomicUsize, Ordering};

use gc_arena::{Arena, Collect, Gc, GcWeak, Lock, Rootable, arena::CollectionPhase as P, collect::Trace, metrics::Pacing};
use gcv::json::J;

use crate::GridOut;

struct N<'gc> {
    next: Lock<Option<Gc<'gc, N<'gc>>>>,
    _pad: u32,
}
unsafe impl<'gc> Collect<'gc> for N<'gc> {
    fn trace<T: Trace<'gc>>(&self, cc: &mut T) {
        cc.trace(&self.next);
    }
}
/// non-tracing payload
struct L(#[allow(dead_code)] u64);
unsafe impl<'gc> Collect<'gc> for L {
    const NEEDS_TRACE: bool = false;
}
struct R<'gc> {
    keep: Vec<Gc<'gc, N<'gc>>>,
    weak: Vec<GcWeak<'gc, N<'gc>>>,
    leaves: Vec<Gc<'gc, L>>,
    /// weak index traced BEFORE the owners
    windex: Vec<GcWeak<'gc, N<'gc>>>,
}
unsafe impl<'gc> Collect<'gc> for R<'gc> {
    fn trace<T: Trace<'gc>>(&self, cc: &mut T) {
        cc.trace(&self.windex);
        cc.trace(&self.keep);
        cc.trace(&self.weak);
        cc.trace(&self.leaves);
    }
}
type A = Arena<Rootable![R<'_>]>;

#[derive(Clone, Copy, Debug)]
struct Cfg {
    f: [f64; 5], // mark trace keep drop free
    sleep_factor: f64,
    min_sleep: usize,
    workload: u8,
    burst: usize,
    driver: u8,
    rounds: usize,
}
impl Cfg {
    fn id(&self) -> String {
        format!("{},{},{},{},{}|{},{}|w{}|b{}|d{}|r{}", self.f[0], self.f[1], self.f[2], self.f[3], self.f[4], self.sleep_factor, self.min_sleep, self.workload, self.burst, self.driver, self.rounds)
    }
    fn parse(s: &str) -> Option<Cfg> {
        let p: Vec<&str> = s.split('|').collect();
        let f: Vec<f64> = p.first()?.split(',').map(|x| x.parse().unwrap()).collect();
        let sl: Vec<&str> = p.get(1)?.split(',').collect();
        Some(Cfg {
            f: [f[0], f[1], f[2], f[3], f[4]],
            sleep_factor: sl[0].parse().ok()?,
            min_sleep: sl[1].parse().ok()?,
            workload: p.get(2)?[1..].parse().ok()?,
            burst: p.get(3)?[1..].parse().ok()?,
            driver: p.get(4)?[1..].parse().ok()?,
            rounds: p.get(5)?[1..].parse().ok()?,
        })
    }
    fn rho(&self) -> f64 {
        let [m, t, k, d, f] = self.f;
        (m + t + k).max(d + f).max(m + d + k)
    }
    fn zero(&self) -> bool {
        self.f.iter().all(|x| *x == 0.0)
    }
}

#[derive(Default)]
struct Stats {
    cycles: u64,
    woken_cycles: u64,
    bound_checks: u64,
    tightest: f64,
    sleep_tests: u64,
    debt_zero_checks: u64,
    stw_checks: u64,
    known_stw_empty: u64,
}

const WORKLOADS: [&str; 8] = ["all garbage", "all survive", "half survive", "mixed with weak shells", "all weak", "non-tracing survivors + garbage", "survivors with 4 write barriers on kept objects per allocation", "survivors that a weak index traced before their owner also refers to"];
const DRIVERS: [&str; 3] = ["cycle_debt", "collect_debt", "mark_debt + start_sweeping, cycle_debt while Sweeping"];

fn alloc_burst(arena: &mut A, cfg: &Cfg, round: usize) {
    let w = cfg.workload;
    let b = cfg.burst;
    arena.mutate_root(|mc, root| {
        for i in 0..b {
            match w {
                5 => {
                    let l = Gc::new(mc, L(i as u64));
                    if i % 2 == 0 {
                        root.leaves.push(l);
                    }
                }
                _ => {
                    let n = Gc::new(mc, N { next: Lock::new(root.keep.last().copied()), _pad: 0 });
                    match w {
                        0 => {}
                        1 => root.keep.push(n),
                        6 => {
                            root.keep.push(n);
                            for j in 0..4 {
                                let k = root.keep[(i * 7 + round * 3 + j) % root.keep.len()];
                                let old = k.next.get();
                                gc_arena::barrier::unlock!(Gc::write(mc, k), N, next).set(old);
                            }
                        }
                        7 => {
                            root.keep.push(n);
                            root.windex.push(Gc::downgrade(n));
                        }
                        2 => {
                            if (i + round) % 2 == 0 {
                                root.keep.push(n)
                            }
                        }
                        3 => match (i + round) % 3 {
                            0 => root.keep.push(n),
                            1 => root.weak.push(Gc::downgrade(n)),
                            _ => {}
                        },
                        _ => root.weak.push(Gc::downgrade(n)),
                    }
                }
            }
        }
        // keep the heap bounded and turn old survivors into garbage now and then
        if root.keep.len() > 48 {
            let cut = root.keep.len() / 2;
            root.keep.drain(..cut);
        }
        if root.windex.len() > 96 {
            root.windex.drain(..48);
        }
        if root.leaves.len() > 48 {
            root.leaves.truncate(16);
        }
        if round % 7 == 6 {
            root.weak.clear();
        }
    });
}

fn run_cfg(cfg: &Cfg, st: &mut Stats) -> Result<(), String> {
    let mut arena: A = Arena::new(|_| R { keep: vec![], weak: vec![], leaves: vec![], windex: vec![] });
    let m = arena.metrics().clone();
    m.set_pacing(Pacing {
        sleep_factor: cfg.sleep_factor,
        min_sleep: cfg.min_sleep,
        mark_factor: cfg.f[0],
        trace_factor: cfg.f[1],
        keep_factor: cfg.f[2],
        drop_factor: cfg.f[3],
        free_factor: cfg.f[4],
    });
    let rho = cfg.rho();
    // cycle tracking (driver 0 only)
    let mut woken: Option<(usize, usize)> = None; // (H, A)
    let mut alloc_while_sweeping = 0usize;
    for round in 0..cfg.rounds {
        let pre_phase = arena.collection_phase();
        alloc_burst(&mut arena, cfg, round);
        if pre_phase == P::Sweeping {
            alloc_while_sweeping += cfg.burst;
        }
        if let Some((_, a)) = woken.as_mut() {
            *a += cfg.burst;
        }
        let debt_before = m.allocation_debt();
        let phase_before = arena.collection_phase();
        if !(debt_before.is_finite() && debt_before >= 0.0) {
            return Err(format!("round {round}: debt {debt_before}"));
        }
        let mut finished_atomically = false;
        if phase_before == P::Sleeping {
            alloc_while_sweeping = 0;
        }
        match cfg.driver {
            0 => {
                if phase_before == P::Sleeping && debt_before > 0.0 && woken.is_none() {
                    // this call wakes the collector; allocations counted from now on
                    woken = Some((m.total_gc_count(), 0));
                    st.woken_cycles += 1;
                }
                arena.cycle_debt();
                let ph = arena.collection_phase();
                let d = m.allocation_debt();
                st.debt_zero_checks += 1;
                if !(d == 0.0 || ph == P::Sleeping) {
                    return Err(format!("round {round}: cycle_debt returned with debt {d} in phase {ph:?}"));
                }
                if cfg.zero() && debt_before > 0.0 {
                    st.stw_checks += 1;
                    if ph == P::Sweeping && m.total_gc_count() == 0 {
                        st.known_stw_empty += 1; // known finding C09/stw-return-on-empty-heap, keep going
                    } else if ph != P::Sleeping {
                        return Err(format!("{}round {round}: all work factors zero, cycle_debt with debt {debt_before} returned in phase {ph:?} (total_gc_count {})", if m.total_gc_count() == 0 && ph == P::Sweeping { "[stw-return-on-empty-heap] " } else { "" }, m.total_gc_count()));
                    }
                }
                if ph == P::Sleeping {
                    if phase_before != P::Sleeping || debt_before > 0.0 {
                        st.cycles += 1;
                        finished_atomically = phase_before == P::Sleeping && debt_before > 0.0;
                    }
                    woken = None;
                } else if let Some((h, a)) = woken {
                    if rho < 1.0 && rho > 0.0 {
                        let bound = rho * h as f64 / (1.0 - rho);
                        st.bound_checks += 1;
                        if bound > 0.0 {
                            st.tightest = st.tightest.max(a as f64 / bound);
                        }
                        if !((a as f64) < bound) {
                            return Err(format!("round {round}: cycle woken with H={h} still unfinished after {a} allocations, bound rho*H/(1-rho) = {bound} (rho={rho})"));
                        }
                        if m.total_gc_count() > h + a {
                            return Err(format!("round {round}: total_gc_count {} exceeds H + A = {}", m.total_gc_count(), h + a));
                        }
                    }
                }
            }
            1 => {
                arena.collect_debt();
                let d = m.allocation_debt();
                st.debt_zero_checks += 1;
                if d != 0.0 {
                    return Err(format!("round {round}: collect_debt returned with debt {d} (phase {:?})", arena.collection_phase()));
                }
                if cfg.zero() && debt_before > 0.0 {
                    st.stw_checks += 1;
                    if arena.collection_phase() == P::Sweeping && m.total_gc_count() == 0 {
                        st.known_stw_empty += 1;
                    } else if arena.collection_phase() != P::Sleeping {
                        return Err(format!("{}round {round}: all work factors zero, collect_debt with debt {debt_before} returned in phase {:?} (total_gc_count {})", if m.total_gc_count() == 0 && arena.collection_phase() == P::Sweeping { "[stw-return-on-empty-heap] " } else { "" }, arena.collection_phase(), m.total_gc_count()));
                    }
                }
                // (cycle boundaries are invisible through collect_debt: no cycle bookkeeping)
            }
            _ => {
                if phase_before == P::Sweeping {
                    arena.cycle_debt();
                    let d = m.allocation_debt();
                    let ph = arena.collection_phase();
                    if !(d == 0.0 || ph == P::Sleeping) {
                        return Err(format!("round {round}: cycle_debt (sweeping) returned with debt {d} in phase {ph:?}"));
                    }
                    if ph == P::Sleeping {
                        st.cycles += 1;
                    }
                } else {
                    let some = match arena.mark_debt() {
                        Some(ma) => {
                            ma.start_sweeping();
                            true
                        }
                        None => false,
                    };
                    let d = m.allocation_debt();
                    let ph = arena.collection_phase();
                    st.debt_zero_checks += 1;
                    if !some && d != 0.0 {
                        return Err(format!("round {round}: mark_debt returned without MarkedArena but with debt {d} (phase {ph:?})"));
                    }
                    if some && ph != P::Sweeping {
                        return Err(format!("round {round}: start_sweeping left phase {ph:?}"));
                    }
                }
            }
        }
        if arena.collection_phase() != P::Sweeping && arena.collection_phase() != P::Sleeping {
            // sweep not begun: nothing allocated "while sweeping" in this cycle yet
            alloc_while_sweeping = 0;
        }
        // ---- sleep rule, at fixed rounds and whenever a cycle finished atomically
        let mut qualified = finished_atomically;
        if !qualified && round % 13 == 12 && m.allocation_debt() == 0.0 && !(cfg.driver == 1 && arena.collection_phase() == P::Sweeping) {
            // (collect_debt may cross cycle boundaries invisibly, so for that driver the number of
            // allocations made "while sweeping" is only known when the arena is not Sweeping now)
            let ph = arena.collection_phase();
            if ph != P::Sweeping {
                alloc_while_sweeping = 0;
            }
            // (if the arena sleeps, finish_cycle performs a whole cycle atomically: nothing is
            // allocated while it sweeps)
            arena.finish_cycle();
            if ph == P::Sleeping {
                alloc_while_sweeping = 0;
            }
            st.cycles += 1;
            woken = None;
            qualified = true;
        }
        if qualified {
            if arena.collection_phase() != P::Sleeping {
                return Err(format!("round {round}: cycle finished but phase is {:?}", arena.collection_phase()));
            }
            st.sleep_tests += 1;
            let survivors = m.total_gc_count() - alloc_while_sweeping;
            alloc_while_sweeping = 0;
            let w = (cfg.sleep_factor * survivors as f64).max(cfg.min_sleep as f64);
            if m.allocation_debt() != 0.0 {
                return Err(format!("round {round}: debt {} right after a cycle that carried no debt", m.allocation_debt()));
            }
            let mut k = 0usize;
            loop {
                k += 1;
                arena.mutate(|mc, _| {
                    Gc::new(mc, L(k as u64));
                });
                let d = m.allocation_debt();
                if (k as f64) <= w {
                    if d != 0.0 {
                        return Err(format!("round {round}: asleep after a debt-free cycle with {survivors} survivors (threshold {w}): debt {d} after only {k} allocations"));
                    }
                    let cnt = m.total_gc_count();
                    arena.collect_debt();
                    if arena.collection_phase() != P::Sleeping || m.total_gc_count() != cnt {
                        return Err(format!("round {round}: collect_debt made progress while the collector should sleep ({k} <= {w})"));
                    }
                } else {
                    if !(d > 0.0) {
                        return Err(format!("round {round}: {k} allocations exceed the sleep threshold {w} ({survivors} survivors) but debt is {d}"));
                    }
                    break;
                }
                if k > 100_000 {
                    return Err("sleep test did not terminate".into());
                }
            }
        }
    }
    Ok(())
}

/// Scale cases: the same guarantees on heaps far larger than the grid's (a debt-driven call may take
/// any number of internal steps). kind 0: stop-the-world collect_debt, 1: stop-the-world cycle_debt,
/// 2: default pacing collect_debt pays its debt, 3: default pacing, collect_debt after every burst of 1000.
fn scale_case(kind: u8, n: usize) -> Result<(), String> {
    // (traceable nodes: they go through the gray queue; kind 4: one heap object with n traceable children)
    let mut arena = Arena::<Rootable![Vec<Gc<'_, N<'_>>>]>::new(|_| vec![]);
    let m = arena.metrics().clone();
    let fill = |arena: &mut Arena<Rootable![Vec<Gc<'_, N<'_>>>]>, from: usize, to: usize| {
        arena.mutate_root(|mc, root| {
            for i in from..to {
                root.push(Gc::new(mc, N { next: Lock::new(None), _pad: i as u32 }));
                Gc::new(mc, N { next: Lock::new(None), _pad: 0 }); // garbage
            }
        });
    };
    match kind {
        0 | 1 => {
            fill(&mut arena, 0, n);
            m.set_pacing(Pacing::STOP_THE_WORLD);
            if !(m.allocation_debt() > 0.0) {
                return Err(format!("no debt after {} allocations", 2 * n));
            }
            if kind == 0 {
                arena.collect_debt();
            } else {
                arena.cycle_debt();
            }
            if arena.collection_phase() != P::Sleeping {
                return Err(format!("stop-the-world pacing, {} allocations, positive debt: the call returned in phase {:?} with {} allocations left", 2 * n, arena.collection_phase(), m.total_gc_count()));
            }
            if m.total_gc_count() != n {
                return Err(format!("stop-the-world cycle left {} allocations, {n} are reachable (all held directly by the root)", m.total_gc_count()));
            }
        }
        2 => {
            fill(&mut arena, 0, n);
            arena.collect_debt();
            if m.allocation_debt() != 0.0 {
                return Err(format!("collect_debt on a heap of {} allocations returned with debt {} (phase {:?})", 2 * n, m.allocation_debt(), arena.collection_phase()));
            }
        }
        3 => {
            let mut done = 0;
            while done < n {
                fill(&mut arena, done, done + 1000);
                done += 1000;
                arena.collect_debt();
                if m.allocation_debt() != 0.0 {
                    return Err(format!("collect_debt returned with debt {} after {} allocations (phase {:?})", m.allocation_debt(), 2 * done, arena.collection_phase()));
                }
            }
            arena.finish_cycle();
            arena.finish_cycle();
            if m.total_gc_count() != n {
                return Err(format!("two finish_cycle calls left {} allocations, {n} are reachable", m.total_gc_count()));
            }
        }
        _ => {
            // a chain of n nodes (deep) and a node whose children are reached through one object (wide):
            // the root holds only the chain head; every node's `next` is the previous node
            arena.mutate_root(|mc, root| {
                let mut prev: Option<Gc<'_, N<'_>>> = None;
                for i in 0..n {
                    prev = Some(Gc::new(mc, N { next: Lock::new(prev), _pad: i as u32 }));
                    Gc::new(mc, N { next: Lock::new(None), _pad: 0 });
                }
                root.push(prev.unwrap());
            });
            arena.finish_cycle();
            arena.finish_cycle();
            if m.total_gc_count() != n {
                return Err(format!("two finish_cycle calls left {} allocations, a chain of {n} is reachable", m.total_gc_count()));
            }
        }
    }
    Ok(())
}

/// One heap object with n traceable children (wide): marking it must terminate and keep all of them.
fn wide_case(n: usize) -> Result<(), String> {
    let mut arena = Arena::<Rootable![Option<Gc<'_, Vec<Gc<'_, N<'_>>>>>]>::new(|_| None);
    let m = arena.metrics().clone();
    arena.mutate_root(|mc, root| {
        let kids: Vec<Gc<'_, N<'_>>> = (0..n).map(|i| Gc::new(mc, N { next: Lock::new(None), _pad: i as u32 })).collect();
        for _ in 0..n {
            Gc::new(mc, N { next: Lock::new(None), _pad: 0 });
        }
        *root = Some(Gc::new(mc, kids));
    });
    arena.collect_debt();
    if m.allocation_debt() != 0.0 {
        return Err(format!("collect_debt returned with debt {}", m.allocation_debt()));
    }
    arena.finish_cycle();
    arena.finish_cycle();
    if m.total_gc_count() != n + 1 {
        return Err(format!("two finish_cycle calls left {} allocations, a table with {n} children is reachable", m.total_gc_count()));
    }
    Ok(())
}

/// Pacing switched to stop-the-world while the collector is in phase `at` (0 Sleeping before any cycle,
/// 1 Marking, 2 Marked, 3 Sweeping, 4 Sleeping after a cycle) of a default-paced arena holding 300
/// reachable + 300 unreachable objects: the next debt-driven call (0 collect_debt, 1 cycle_debt) with
/// positive debt must not return before the collector sleeps again.
fn switch_case(at: u8, call: u8) -> Result<(), String> {
    let mut arena = Arena::<Rootable![Vec<Gc<'_, N<'_>>>]>::new(|_| vec![]);
    let m = arena.metrics().clone();
    arena.mutate_root(|mc, root| {
        for i in 0..300u32 {
            root.push(Gc::new(mc, N { next: Lock::new(None), _pad: i }));
            Gc::new(mc, N { next: Lock::new(None), _pad: 0 });
        }
    });
    match at {
        0 => {}
        1 => {
            // a few increments of marking under the default pacing
            m.adjust_debt(1.0e6);
            let d = m.allocation_debt();
            m.adjust_debt(3.0 - d);
            let _ = arena.mark_debt();
            if arena.collection_phase() != P::Marking {
                // (the workload did not stop mid-marking under this library's default pacing: nothing to test here)
                return Ok(());
            }
        }
        2 => {
            let _ = arena.finish_marking();
        }
        3 => {
            if let Some(ma) = arena.finish_marking() {
                ma.start_sweeping();
            }
        }
        _ => {
            arena.finish_cycle();
            arena.mutate(|mc, _| {
                for _ in 0..300 {
                    Gc::new(mc, N { next: Lock::new(None), _pad: 0 });
                }
            });
        }
    }
    m.set_pacing(Pacing::STOP_THE_WORLD);
    // (the reported debt follows the pacing in force: an adjustment by exactly zero cannot move it)
    let d1 = m.allocation_debt();
    m.adjust_debt(0.0);
    let d2 = m.allocation_debt();
    if d1 != d2 {
        return Err(format!("right after set_pacing (all work factors zero, while {}) allocation_debt() read {d1}; after adjust_debt(0.0) it reads {d2}", ["Sleeping before the first cycle", "Marking", "Marked", "Sweeping", "Sleeping after a cycle"][at as usize]));
    }
    m.adjust_debt(1.0e6);
    let d = m.allocation_debt();
    m.adjust_debt(5.0 - d);
    if !(m.allocation_debt() > 0.0) {
        return Err(format!("adjust_debt: debt normalised to 5 reads {}", m.allocation_debt()));
    }
    if call == 0 {
        arena.collect_debt();
    } else {
        arena.cycle_debt();
    }
    if arena.collection_phase() != P::Sleeping {
        return Err(format!("all work factors set to zero while {}, positive debt: the call returned in phase {:?} ({} allocations left, 300 reachable)", ["Sleeping before the first cycle", "Marking", "Marked", "Sweeping", "Sleeping after a cycle"][at as usize], arena.collection_phase(), m.total_gc_count()));
    }
    if call == 0 && m.allocation_debt() != 0.0 {
        return Err(format!("collect_debt (after adjust_debt(5)) returned with debt {}", m.allocation_debt()));
    }
    // a second adjustment is paid the same way: nothing of the first one is left over
    m.adjust_debt(1.0e6);
    let d = m.allocation_debt();
    m.adjust_debt(7.0 - d);
    if (m.allocation_debt() - 7.0).abs() > 1e-6 {
        return Err(format!("debt normalised to 7 reads {}", m.allocation_debt()));
    }
    arena.collect_debt();
    if m.allocation_debt() != 0.0 || arena.collection_phase() != P::Sleeping {
        return Err(format!("second collect_debt returned with debt {} in phase {:?}", m.allocation_debt(), arena.collection_phase()));
    }
    Ok(())
}

/// Resurrection earns no free credit: a victim reachable only through `k` weak registrations is
/// resurrected through every one of them inside finalize (mode 0), or a kept object that a write
/// barrier has just re-queued is resurrected `k` times (mode 1); the cycle is then driven by
/// cycle_debt with one allocation per call, and must not be unfinished once rho*H/(1-rho)
/// allocations were made since it woke.
fn resurrect_case(k: usize, pf: u8, mode: u8) -> Result<(), String> {
    let f = [[0.0, 0.5, 0.0, 0.0, 0.5], [0.1, 0.4, 0.05, 0.2, 0.3], [0.3, 0.3, 0.3, 0.05, 0.05]][pf as usize];
    let cfg = Cfg { f, sleep_factor: 0.0, min_sleep: 0, workload: 0, burst: 1, driver: 0, rounds: 0 };
    let rho = cfg.rho();
    let mut arena: A = Arena::new(|mc| {
        let keep: Vec<Gc<'_, N<'_>>> = (0..9u32).map(|i| Gc::new(mc, N { next: Lock::new(None), _pad: i })).collect();
        let victim = keep[8];
        R { keep, weak: vec![Gc::downgrade(victim); k], leaves: vec![], windex: vec![] }
    });
    let m = arena.metrics().clone();
    m.set_pacing(Pacing { sleep_factor: 0.0, min_sleep: 0, mark_factor: f[0], trace_factor: f[1], keep_factor: f[2], drop_factor: f[3], free_factor: f[4] });
    arena.finish_cycle();
    if arena.collection_phase() != P::Sleeping || m.allocation_debt() != 0.0 {
        return Err(format!("after finish_cycle: phase {:?}, debt {}", arena.collection_phase(), m.allocation_debt()));
    }
    if mode == 0 {
        arena.mutate_root(|_, r| {
            r.keep.pop();
        });
    }
    let garbage = |arena: &mut A| {
        arena.mutate(|mc, _| {
            Gc::new(mc, N { next: Lock::new(None), _pad: 0 });
        })
    };
    garbage(&mut arena);
    if !(m.allocation_debt() > 0.0) {
        return Err(format!("no sleep allowance, one allocation after a cycle: debt {}", m.allocation_debt()));
    }
    let h = m.total_gc_count();
    let bound = rho * h as f64 / (1.0 - rho);
    let mut since = 0usize;
    loop {
        if let Some(ma) = arena.mark_debt() {
            let mut bad: Option<String> = None;
            ma.finalize(|fc, root| {
                if mode == 0 {
                    if !root.weak[0].is_dead(fc) {
                        bad = Some("the victim (only weakly reachable, no mutation since it lost its owner before the cycle woke) is not dead".into());
                    }
                    for w in &root.weak {
                        if w.resurrect(fc).is_none() {
                            bad = Some("resurrect of an undestructed target returned None".into());
                        }
                    }
                } else {
                    let t = root.keep[0];
                    gc_arena::barrier::unlock!(Gc::write(fc, t), N, next).set(None); // backward barrier: the (black) parent is queued again
                    for _ in 0..k {
                        Gc::resurrect(fc, t);
                    }
                }
            });
            if let Some(b) = bad {
                return Err(b);
            }
            break;
        }
        garbage(&mut arena);
        since += 1;
        if since > 10_000 {
            return Err("marking driven by mark_debt never finished".into());
        }
    }
    for _ in 0..10_000 {
        arena.cycle_debt();
        let (d, ph) = (m.allocation_debt(), arena.collection_phase());
        if !(d == 0.0 || ph == P::Sleeping) {
            return Err(format!("cycle_debt returned with debt {d} in phase {ph:?}"));
        }
        if ph == P::Sleeping {
            // the resurrected victim survived the cycle
            let mut alive = true;
            arena.mutate(|mc, root| {
                if mode == 0 {
                    alive = root.weak.iter().all(|w| w.upgrade(mc).is_some());
                }
            });
            if !alive {
                return Err("the resurrected object did not survive the cycle".into());
            }
            return Ok(());
        }
        if !((since as f64) < bound) {
            return Err(format!("cycle woken with H={h} still unfinished after {since} allocations (phase {ph:?}), bound rho*H/(1-rho) = {bound} (rho={rho}); finalize resurrected {}", if mode == 0 { format!("one object through {k} weak registrations") } else { format!("an already queued object {k} times") }));
        }
        garbage(&mut arena);
        since += 1;
    }
    Err("cycle never finished".into())
}

/// The sleep allowance is fixed when the cycle finishes ("the factors that affect the gc sleep time
/// will not take effect until the start of the next collection"): pacing with other sleep
/// parameters is set while the collector sleeps (dir 0: longer, 1: none at all; `after` allocations
/// into the sleep); the current sleep still ends after max(min_sleep, sleep_factor x survivors) of
/// the pacing the cycle finished under, and the next one follows the new pacing.
fn sleep_switch_case(dir: u8, after: usize) -> Result<(), String> {
    let mut arena = Arena::<Rootable![Vec<Gc<'_, N<'_>>>]>::new(|_| vec![]);
    let m = arena.metrics().clone();
    let mk = |sf: f64, ms: usize| Pacing { sleep_factor: sf, min_sleep: ms, ..Pacing::DEFAULT };
    let (a, b) = ((1.0, 16usize), if dir == 0 { (3.0, 64usize) } else { (0.0, 0usize) });
    m.set_pacing(mk(a.0, a.1));
    arena.mutate_root(|mc, root| {
        for i in 0..40u32 {
            root.push(Gc::new(mc, N { next: Lock::new(None), _pad: i }));
            Gc::new(mc, N { next: Lock::new(None), _pad: 0 });
        }
    });
    arena.finish_cycle();
    arena.finish_cycle();
    let mut cur = a;
    for round in 0..2 {
        if arena.collection_phase() != P::Sleeping || m.allocation_debt() != 0.0 {
            return Err(format!("round {round}: after finish_cycle: phase {:?}, debt {}", arena.collection_phase(), m.allocation_debt()));
        }
        let survivors = m.total_gc_count();
        let w = (cur.0 * survivors as f64).max(cur.1 as f64);
        let mut k = 0usize;
        loop {
            if round == 0 && k == after {
                m.set_pacing(mk(b.0, b.1));
            }
            k += 1;
            arena.mutate(|mc, _| {
                Gc::new(mc, N { next: Lock::new(None), _pad: 0 });
            });
            let d = m.allocation_debt();
            if (k as f64) <= w {
                if d != 0.0 {
                    return Err(format!("round {round}: cycle finished under sleep_factor {} / min_sleep {} with {survivors} survivors (threshold {w}){}: debt {d} after only {k} allocations", cur.0, cur.1, if round == 0 { format!(", set_pacing(sleep_factor {} / min_sleep {}) called {after} allocations into the sleep", b.0, b.1) } else { String::new() }));
                }
                let cnt = m.total_gc_count();
                arena.collect_debt();
                if arena.collection_phase() != P::Sleeping || m.total_gc_count() != cnt {
                    return Err(format!("round {round}: collect_debt made progress while the collector should sleep ({k} <= {w})"));
                }
            } else {
                if !(d > 0.0) {
                    return Err(format!("round {round}: cycle finished under sleep_factor {} / min_sleep {} with {survivors} survivors: {k} allocations exceed the threshold {w} but debt is {d}{}", cur.0, cur.1, if round == 0 { format!(" (set_pacing(sleep_factor {} / min_sleep {}) called {after} allocations into the sleep)", b.0, b.1) } else { String::new() }));
                }
                break;
            }
            if k > 100_000 {
                return Err("sleep test did not terminate".into());
            }
        }
        // the next cycle finishes under the new pacing
        arena.finish_cycle();
        if arena.collection_phase() != P::Sleeping {
            arena.finish_cycle();
        }
        cur = b;
        // (finish_cycle from a woken collector may carry debt over: normalise)
        let d = m.allocation_debt();
        if d != 0.0 {
            arena.finish_cycle();
        }
    }
    Ok(())
}

/// Only the scale / wide cases (also run as a stage of C01: "no reachable value is lost" on heaps far beyond the explorer's).
pub fn run_scale(thorough: bool, only: Option<&str>) -> GridOut {
    run_inner(thorough, only, true)
}
pub fn run(thorough: bool, only: Option<&str>) -> GridOut {
    run_inner(thorough, only, false)
}
fn run_inner(thorough: bool, only: Option<&str>, scale_only: bool) -> GridOut {
    let mut cfgs: Vec<Cfg> = vec![];
    let mut scale: Vec<(String, u8, usize)> = vec![];
    for &n in if thorough { &[5_000usize, 100_000][..] } else { &[5_000usize][..] } {
        scale.push((format!("scale/wide/n{n}"), 90, n));
    }
    for at in 0..5u8 {
        for call in 0..2u8 {
            // (kind >= 100 encodes a pacing-switch case)
            scale.push((format!("scale/switch/at{at}/call{call}"), 100 + at * 2 + call, 0));
        }
    }
    for (ki, k) in [1usize, 2, 64].iter().enumerate() {
        for pf in 0..3u8 {
            for mode in 0..2u8 {
                // (kind 120..: resurrection cases, n = registrations)
                scale.push((format!("scale/resurrect/k{k}/pf{pf}/mode{mode}"), 120 + (ki as u8) * 6 + pf * 2 + mode, *k));
            }
        }
    }
    for dir in 0..2u8 {
        for (ai, after) in [0usize, 5, 16].iter().enumerate() {
            scale.push((format!("scale/sleepswitch/dir{dir}/after{after}"), 140 + dir * 3 + ai as u8, *after));
        }
    }
    for &n in if thorough { &[100_000usize, 400_000][..] } else { &[100_000usize][..] } {
        for kind in 0..5u8 {
            scale.push((format!("scale/kind{kind}/n{n}"), kind, n));
        }
    }
    if scale_only {
        scale.retain(|c| !c.0.starts_with("scale/switch") && !c.0.starts_with("scale/resurrect") && !c.0.starts_with("scale/sleepswitch") && only.map(|o| c.0 == o).unwrap_or(true));
    } else if let Some(id) = only {
        if id.starts_with("scale/") {
            scale.retain(|c| c.0 == id);
        } else {
            scale.clear();
            cfgs.push(Cfg::parse(id).expect("case id"));
        }
    } else {
        let vals: &[f64] = if thorough { &[0.0, 0.05, 0.15, 0.3, 0.45, 0.6] } else { &[0.0, 0.05, 0.3, 0.45] };
        let mut pacings: Vec<[f64; 5]> = vec![];
        for &m in vals {
            for &t in vals {
                for &k in vals {
                    for &d in vals {
                        for &f in vals {
                            let all_zero = [m, t, k, d, f].iter().all(|x| *x == 0.0);
                            let ok = m + t + k < 1.0 && d + f < 1.0 && m + d + k < 1.0;
                            if all_zero || ok {
                                pacings.push([m, t, k, d, f]);
                            }
                        }
                    }
                }
            }
        }
        pacings.push([0.1, 0.4, 0.05, 0.2, 0.3]); // Pacing::DEFAULT
        let sleeps: &[(f64, usize)] = &[(0.0, 0), (0.5, 4), (1.0, 16), (2.0, 1)];
        let bursts: &[usize] = if thorough { &[1, 3, 17, 64] } else { &[1, 3, 17] };
        let rounds = if thorough { 400 } else { 120 };
        for f in &pacings {
            for (sf, ms) in sleeps {
                for w in 0..8u8 {
                    for &b in bursts {
                        for d in 0..3u8 {
                            cfgs.push(Cfg { f: *f, sleep_factor: *sf, min_sleep: *ms, workload: w, burst: b, driver: d, rounds });
                        }
                    }
                }
            }
        }
    }
    if std::env::var_os("GRID_LIST").is_some() {
        // the driver asks for the case names only (crash isolation)
        for c in &cfgs {
            println!("{}", c.id());
        }
        for c in &scale {
            println!("{}", c.0);
        }
        return GridOut { evaluations: 0, nontrivial: 0, rule: String::new(), samples: vec![], violations: vec![], extra: J::obj() };
    }
    let next = AtomicUsize::new(0);
    let viol: Mutex<Vec<(usize, String)>> = Mutex::new(vec![]);
    let stats: Mutex<Stats> = Mutex::new(Stats::default());
    let nthreads = std::thread::available_parallelism().map(|n| n.get()).unwrap_or(4);
    let ids: Vec<Cfg> = cfgs.clone();
    let scale_names: Vec<String> = scale.iter().map(|c| c.0.clone()).collect();
    let ncfg = cfgs.len();
    let watch = crate::watchdog(nthreads + 1, cfgs.len() + scale.len(), Box::new(move |i| if i < ids.len() { ids[i].id() } else { scale_names[i - ids.len()].clone() }));
    std::thread::scope(|s| {
        for wi in 0..nthreads {
            let watch = watch.clone();
            let (next, viol, stats, cfgs) = (&next, &viol, &stats, &cfgs);
            s.spawn(move || {
                let mut st = Stats::default();
                loop {
                    let i = next.fetch_add(1, Ordering::Relaxed);
                    if i >= cfgs.len() {
                        break;
                    }
                    watch.begin(wi, i);
                    let r = std::panic::catch_unwind(std::panic::AssertUnwindSafe(|| run_cfg(&cfgs[i], &mut st)));
                    watch.end(wi);
                    match r {
                        Ok(Ok(())) => {}
                        Ok(Err(e)) => viol.lock().unwrap().push((i, e)),
                        Err(p) => viol.lock().unwrap().push((i, format!("panic at {}: {}", crate::LAST_PANIC_LOC.with(|c| c.borrow().clone()), gcv::wops::panic_msg(&p)))),
                    }
                }
                let mut g = stats.lock().unwrap();
                g.cycles += st.cycles;
                g.woken_cycles += st.woken_cycles;
                g.bound_checks += st.bound_checks;
                g.tightest = g.tightest.max(st.tightest);
                g.sleep_tests += st.sleep_tests;
                g.debt_zero_checks += st.debt_zero_checks;
                g.stw_checks += st.stw_checks;
                g.known_stw_empty += st.known_stw_empty;
            });
        }
    });
    let mut v = viol.into_inner().unwrap();
    v.sort();
    let mut scale_viol: Vec<J> = vec![];
    for (si, (name, kind, n)) in scale.iter().enumerate() {
        watch.begin(nthreads, ncfg + si);
        let r = std::panic::catch_unwind(|| if *kind >= 140 { sleep_switch_case((*kind - 140) / 3, *n) } else if *kind >= 120 { resurrect_case(*n, ((*kind - 120) % 6) / 2, (*kind - 120) % 2) } else if *kind >= 100 { switch_case((*kind - 100) / 2, (*kind - 100) % 2) } else if *kind == 90 { wide_case(*n) } else { scale_case(*kind, *n) }).unwrap_or_else(|p| Err(format!("panic: {}", gcv::wops::panic_msg(&p))));
        watch.end(nthreads);
        if let Err(e) = r {
            scale_viol.push(J::obj().with("case", name.as_str()).with("message", e.as_str()));
        }
    }
    let st = stats.into_inner().unwrap();
    let nontrivial = if scale_only { scale.len() as u64 } else { cfgs.iter().filter(|c| !c.zero()).count() as u64 };
    GridOut {
        evaluations: cfgs.len() as u64 + scale.len() as u64,
        nontrivial,
        rule: format!(
            "full grid: pacing factors from the value set with the three documented path sums < 1 (incl. the all-zero stop-the-world row; plus Pacing::DEFAULT) x (sleep_factor, min_sleep) in {{(0,0),(0.5,4),(1,16),(2,1)}} x workloads {:?} x bursts x drivers {:?} x rounds; plus scale cases with traceable objects (all held directly by the root, a chain of 100 000, one table with 5 000 children; heaps of 2 x 100 000 allocations, thorough also 2 x 400 000: stop-the-world collect_debt / cycle_debt end Sleeping with exactly the reachable half left, default-pacing collect_debt returns with zero debt, also after every burst of 2 000) and pacing-switch cases (stop-the-world pacing set while Sleeping / Marking / Marked / Sweeping x collect_debt / cycle_debt: the next call with positive debt ends Sleeping), resurrection cases (finalize resurrects one dead object through 1 / 2 / 64 weak registrations, or an already re-queued object that many times, x 3 pacings: the cycle bound still holds with one allocation per cycle_debt call) and sleep-switch cases (set_pacing with a longer / no sleep allowance 0 / 5 / 16 allocations into a sleep: the current sleep keeps the allowance it was given, the next follows the new pacing); non-trivial = configurations with non-zero work factors (incremental pacing)",
            WORKLOADS, DRIVERS
        ),
        samples: cfgs.iter().step_by((cfgs.len() / 5).max(1)).take(5).map(|c| J::Str(c.id())).collect(),
        violations: v.iter().map(|(i, e)| J::obj().with("case", cfgs[*i].id()).with("message", e.as_str())).chain(scale_viol).collect(),
        extra: J::obj()
            .with("completed_cycles", st.cycles)
            .with("cycles_woken_by_debt_driven_call", st.woken_cycles)
            .with("cycle_bound_checks", st.bound_checks)
            .with("tightest_A_over_bound", st.tightest)
            .with("sleep_rule_tests", st.sleep_tests)
            .with("debt_zero_checks", st.debt_zero_checks)
            .with("stop_the_world_checks", st.stw_checks)
            .with("known_findings", J::obj().with("C09/stw-return-on-empty-heap", st.known_stw_empty))
            .with("exhaustive", only.is_none()),
    }
}
