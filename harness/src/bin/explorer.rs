//! CLI: explorer --prop C01 --scope S2 [--probes c02,c04] [--max-states N] [--max-secs S]
//!               [--threads T] --out result.json
//!      explorer --replay file.json
use gcv::{engine::*, json::{self, J}, ops::{Op, fmt_hist}, scopes::{self, Probes}};

fn arg(args: &[String], k: &str) -> Option<String> {
    args.iter().position(|a| a == k).and_then(|i| args.get(i + 1).cloned())
}

fn parse_probes(s: &str) -> Probes {
    let mut p = Probes::default();
    for t in s.split(',') {
        match t.trim() {
            "c02" => p.c02 = true,
            "c03" => p.c03 = true,
            "c04" => p.c04 = true,
            "c08" => p.c08 = true,
            "c14" => p.c14 = true,
            "c11" => p.c11 = true,
            "" => {}
            x => {
                eprintln!("unknown probe {x}");
                std::process::exit(2)
            }
        }
    }
    p
}

fn main() {
    std::panic::set_hook(Box::new(|_| {}));
    let args: Vec<String> = std::env::args().collect();
    if let Some(f) = arg(&args, "--decode-crash") {
        let bytes = std::fs::read(&f).expect("read crash file");
        match gcv::crash::decode(&bytes) {
            Some((sig, scope, ops, probe)) => {
                let j = J::obj().with("signal", sig as i64).with("scope", scope.as_str()).with("history", fmt_hist(&ops)).with("probe", probe.map(|p| J::Int(p as i64)).unwrap_or(J::Null));
                println!("{}", j.dump());
                std::process::exit(0)
            }
            None => std::process::exit(2),
        }
    }
    if let Some(f) = arg(&args, "--crash-file") {
        gcv::crash::install(&f);
    }
    if let Some(f) = arg(&args, "--replay") {
        std::process::exit(replay(&f));
    }
    let prop = arg(&args, "--prop").expect("--prop");
    let scope_name = arg(&args, "--scope").expect("--scope");
    let product = scope_name.starts_with('P');
    let Some(sc) = scopes::scope(if product { "P1" } else { &scope_name }) else {
        eprintln!("unknown scope {scope_name}");
        std::process::exit(2)
    };
    let probes = parse_probes(&arg(&args, "--probes").unwrap_or_default());
    let lim = Limits {
        max_states: arg(&args, "--max-states").map(|s| s.parse().unwrap()).unwrap_or(200_000_000),
        max_secs: arg(&args, "--max-secs").map(|s| s.parse().unwrap()).unwrap_or(3600.0),
        threads: arg(&args, "--threads").map(|s| s.parse().unwrap()).unwrap_or_else(|| std::thread::available_parallelism().map(|n| n.get()).unwrap_or(4)),
        stop_on_violation: true,
    };
    let out = if product {
        gcv::product::explore_product(&scope_name, &prop, &probes, &lim)
    } else {
        explore::<Single>(&sc, &prop, &probes, &lim)
    };
    let mut j = outcome_json(&out);
    j.set("property", prop.as_str());
    j.set("probes", arg(&args, "--probes").unwrap_or_default());
    let path = arg(&args, "--out").unwrap_or_else(|| "/dev/stdout".into());
    std::fs::write(&path, j.dump()).expect("write result");
    eprintln!(
        "[{}] scope {} states {} transitions {} execs {} depth {} closed {} violations {} foreign {:?} machinery {} wall {:.1}s",
        prop, out.scope, out.states, out.transitions, out.executions, out.max_depth, out.closed, out.violations.len(), out.foreign, out.machinery.len(), out.wall_s
    );
    if !out.machinery.is_empty() {
        for m in out.machinery.iter().take(3) {
            eprintln!("MACHINERY: {m}");
        }
        std::process::exit(2);
    }
    if let Some(f) = out.violations.first() {
        eprintln!("first violation: {} — {}\n  history: {:?}", f.viol.oracle, f.viol.msg, fmt_hist(&f.hist));
        std::process::exit(1);
    }
}

/// Re-execute a recorded history twice with every oracle on; both runs must agree.
fn replay(file: &str) -> i32 {
    let txt = std::fs::read_to_string(file).expect("read replay");
    let j = json::parse(&txt).expect("parse replay");
    let scope_name = j.get("scope").and_then(|s| s.as_str()).expect("scope").to_string();
    let ops: Vec<Op> = j.get("history").and_then(|a| a.as_arr()).expect("history").iter().map(|s| Op::parse(s.as_str().unwrap()).expect("op")).collect();
    let probes = parse_probes(j.get("probes").and_then(|s| s.as_str()).unwrap_or(""));
    let probe_idx = j.get("probe").and_then(|p| p.as_i64());
    let run = || -> String {
        if scope_name.starts_with('P') {
            return gcv::product::replay_product(&scope_name, &ops, &probes, probe_idx);
        }
        let sc = scopes::scope(&scope_name).expect("scope");
        match run_history_full::<Single>(&sc, &ops) {
            Err((i, v)) => format!("VIOLATED at step {i} ({:?}): {} — {}", ops.get(i), v.oracle, v.msg),
            Ok(h) => {
                let (_, pv) = run_history::<Single>(&sc, &ops, &probes);
                match pv.iter().find(|(i, _)| probe_idx.map(|p| p as usize == *i).unwrap_or(true)) {
                    Some((i, v)) => format!("VIOLATED in probe {i}: {} — {}", v.oracle, v.msg),
                    None => format!("holds (final state hash {h:032x})"),
                }
            }
        }
    };
    let a = run();
    let b = run();
    println!("{a}");
    if a != b {
        println!("REPLAY DIVERGED: second run gave: {b}");
        return 2;
    }
    let _ = J::Null;
    if a.starts_with("VIOLATED") { 1 } else { 0 }
}
