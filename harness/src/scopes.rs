//! Bounds ("scopes") of the explorer and the oracle-ownership table.

#[derive(Clone, Copy, Debug)]
pub struct Scope {
    pub name: &'static str,
    /// maximum number of simultaneously allocated harness objects (shells count)
    pub n: usize,
    /// root slots (1..=2)
    pub r: u8,
    /// strong slots per node (1..=2)
    pub k: u8,
    pub weak: bool,
    /// the weak slot sits behind a `dyn` trait object (object-safe tracing path)
    pub dynweak: bool,
    pub copyroot: bool,
    /// NewChild / Link / Unlink enabled
    pub graph: bool,
    /// allocation of nodes that hold a pointer from construction (NewChildHolding / NewRootHolding)
    pub holding: bool,
    /// root operations also through map_root / try_map_root
    pub maproot: bool,
    pub upgrade_ops: bool,
    /// wrapping collect_debt operations (Step)
    pub wrap: bool,
    /// debt classes for debt-driven calls: bit 0 eps, bit 1 zero, bit 2 huge
    pub classes: u8,
    pub barrier: bool,
    pub barrier2: bool,
    pub cells: bool,
    pub leaf: bool,
    /// weak pointers to leaf objects
    pub weakleaf: bool,
    pub fin: bool,
    /// only FinQuery(0), FinRes, FinResChild of the finalization operations
    pub fin_min: bool,
    pub faults: bool,
    pub pcallbacks: bool,
    /// number of DynamicRootSets in the root (0..=2) and handle slots
    pub sets: u8,
    pub handles: u8,
    /// product scope: handles may move into heap values of the other arena
    pub lend: bool,
    /// the arena is created with a pacing that leaves no sleep allowance at all (min_sleep 0, sleep_factor 0)
    pub zero_sleep: bool,
    /// all work factors zero (`Pacing::STOP_THE_WORLD`): debt-driven calls never stop mid-phase, but the explicit
    /// phase calls (finish_marking, mark_debt, start_sweeping) still leave the arena Marked / Sweeping between callbacks
    pub stw: bool,
    /// track the garbage that existed when the cycle woke: it must be destructed by the end of THAT cycle (non-wrapping scopes)
    pub exact_cycle: bool,
    /// integer metric counters are part of the canonical state
    pub metrics_canon: bool,
    /// 'allocated during the running sweep' flags are part of the canonical state
    pub born_canon: bool,
    /// no debt normalisation; AdjustDebt/SetPacing operations; f64 bits in the state
    pub natural: bool,
    /// depth bound (0 = none: run to closure)
    pub max_depth: usize,
    /// per-state probes to run
    pub probes: Probes,
}

#[derive(Clone, Copy, Debug, Default)]
pub struct Probes {
    pub c02: bool,
    pub c03: bool,
    pub c04: bool,
    pub c08: bool,
    pub c14: bool,
    pub c11: bool,
}

impl Probes {
    pub fn any(&self) -> bool {
        self.c02 || self.c03 || self.c04 || self.c08 || self.c14 || self.c11
    }
}

pub const BASE: Scope = Scope {
    name: "base",
    n: 2,
    r: 2,
    k: 2,
    weak: true,
    dynweak: false,
    copyroot: true,
    graph: true,
    holding: false,
    maproot: false,
    upgrade_ops: true,
    wrap: true,
    classes: 0b001,
    barrier: false,
    barrier2: false,
    cells: false,
    leaf: false,
    weakleaf: false,
    fin: false,
    fin_min: false,
    faults: false,
    pcallbacks: false,
    sets: 0,
    handles: 0,
    lend: false,
    zero_sleep: false,
    stw: false,
    exact_cycle: false,
    metrics_canon: false,
    born_canon: false,
    natural: false,
    max_depth: 0,
    probes: Probes { c02: false, c03: false, c04: false, c08: false, c14: false, c11: false },
};

pub fn scope(name: &str) -> Option<Scope> {
    let s = match name {
        // full 2-object scope
        "S2" => Scope { name: "S2", classes: 0b101, maproot: true, ..BASE },
        // 2 objects + finalization, non-wrapping collector ops
        "S2f" => Scope { name: "S2f", fin: true, wrap: false, ..BASE },
        "S3fr" => Scope { name: "S3fr", n: 3, r: 1, k: 1, fin: true, wrap: false, copyroot: false, upgrade_ops: false, ..BASE },
        "S3fq" => Scope { name: "S3fq", n: 3, r: 1, k: 1, fin: true, fin_min: true, wrap: false, copyroot: false, upgrade_ops: false, classes: 0, ..BASE },
        "S3fq9" => Scope { name: "S3fq9", n: 3, r: 1, k: 1, fin: true, fin_min: true, wrap: false, copyroot: false, upgrade_ops: false, classes: 0, max_depth: 9, ..BASE },
        "S2bf" => Scope { name: "S2bf", n: 2, r: 1, k: 1, fin: true, wrap: false, copyroot: false, barrier: true, ..BASE },
        "S2fm" => Scope { name: "S2fm", n: 2, r: 1, k: 1, fin: true, wrap: false, copyroot: false, maproot: true, ..BASE },
        // finalization after a caught panic in a trace call (of an object or of the root itself)
        // finalization + callbacks that mutate and then unwind, incl. the finalize callback itself (PFin)
        "S2pf" => Scope { name: "S2pf", n: 2, r: 2, k: 1, fin: true, fin_min: true, pcallbacks: true, wrap: false, copyroot: false, ..BASE },
        "S2fp" => Scope { name: "S2fp", n: 2, r: 2, k: 1, fin: true, fin_min: true, faults: true, wrap: false, copyroot: false, upgrade_ops: false, ..BASE },
        "S2f1" => Scope { name: "S2f1", fin: true, wrap: false, r: 1, k: 1, ..BASE },
        // chains of 3 / 4 objects, one root slot, one strong slot, no weak
        "S3h" => Scope { name: "S3h", n: 3, r: 2, k: 1, weak: false, upgrade_ops: false, copyroot: false, wrap: false, holding: true, ..BASE },
        "S3c" => Scope { name: "S3c", n: 3, r: 1, k: 1, weak: false, upgrade_ops: false, ..BASE },
        "S4c" => Scope { name: "S4c", n: 4, r: 1, k: 1, weak: false, upgrade_ops: false, ..BASE },
        "S3w" => Scope { name: "S3w", n: 3, r: 1, k: 1, ..BASE },
        "S3wl" => Scope { name: "S3wl", n: 3, r: 1, k: 1, copyroot: false, upgrade_ops: false, wrap: false, ..BASE },
        // 4 objects with weak pointers, minimal alphabet (list surgery around kept shells needs holder + shell + fresh allocation + garbage)
        "S4wl" => Scope { name: "S4wl", n: 4, r: 1, k: 1, copyroot: false, upgrade_ops: false, wrap: false, ..BASE },
        "S4wl9" => Scope { name: "S4wl9", n: 4, r: 1, k: 1, copyroot: false, upgrade_ops: false, wrap: false, max_depth: 9, ..BASE },
        "S2wd" => Scope { name: "S2wd", n: 2, r: 1, k: 1, dynweak: true, ..BASE },
        // weak look-ups that store nothing + "garbage at wake dies in that cycle"
        "S2wx" => Scope { name: "S2wx", n: 2, r: 1, k: 1, copyroot: false, wrap: false, exact_cycle: true, ..BASE },
        "S3wx" => Scope { name: "S3wx", n: 3, r: 1, k: 1, copyroot: false, wrap: false, exact_cycle: true, ..BASE },
        "S2w" => Scope { name: "S2w", n: 2, r: 1, k: 1, ..BASE },
        // barrier paths
        // the barrier and cell alphabets under stop-the-world pacing
        "S2bz" => Scope { name: "S2bz", n: 2, r: 1, k: 1, barrier: true, cells: false, stw: true, ..BASE },
        "S2b" => Scope { name: "S2b", n: 2, r: 1, k: 1, barrier: true, cells: false, ..BASE },
        "S2bc" => Scope { name: "S2bc", n: 3, r: 1, k: 1, weak: false, upgrade_ops: false, copyroot: false, graph: false, wrap: false, cells: true, ..BASE },
        "S2bcw" => Scope { name: "S2bcw", n: 3, r: 1, k: 1, weak: true, upgrade_ops: false, copyroot: false, graph: false, wrap: false, cells: true, ..BASE },
        "S3bc" => Scope { name: "S3bc", n: 3, r: 1, k: 1, weak: true, copyroot: false, wrap: false, cells: true, ..BASE },
        "S2b2" => Scope { name: "S2b2", n: 2, r: 1, k: 2, copyroot: false, wrap: false, barrier: true, barrier2: true, ..BASE },
        "S3bw" => Scope { name: "S3bw", n: 3, r: 1, k: 1, barrier: true, copyroot: false, upgrade_ops: false, wrap: false, ..BASE },
        // weak pointers changing holders under the explicit weak barriers: two root slots, no strong edges
        "S3bww" => Scope { name: "S3bww", n: 3, r: 2, k: 0, graph: false, barrier: true, copyroot: false, upgrade_ops: false, wrap: false, ..BASE },
        "S3b" => Scope { name: "S3b", n: 3, r: 1, k: 1, barrier: true, ..BASE },
        // faults
        "S2p" => Scope { name: "S2p", n: 2, r: 2, k: 1, faults: true, pcallbacks: true, ..BASE },
        "S3p" => Scope { name: "S3p", n: 3, r: 1, k: 1, weak: false, upgrade_ops: false, faults: true, pcallbacks: true, ..BASE },
        // dynamic roots
        "S2d" => Scope { name: "S2d", n: 2, r: 1, k: 1, weak: false, upgrade_ops: false, sets: 1, handles: 3, ..BASE },
        "S2d2" => Scope { name: "S2d2", n: 2, r: 1, k: 1, weak: false, upgrade_ops: false, copyroot: false, wrap: false, sets: 2, handles: 2, ..BASE },
        "S1d2" => Scope { name: "S1d2", n: 1, r: 1, k: 1, weak: false, upgrade_ops: false, copyroot: false, wrap: false, sets: 2, handles: 2, ..BASE },
        "S2dw" => Scope { name: "S2dw", n: 2, r: 1, k: 1, weak: true, upgrade_ops: true, copyroot: false, wrap: false, sets: 1, handles: 2, ..BASE },
        // stashing objects of a type that needs no tracing
        "S2dl" => Scope { name: "S2dl", n: 2, r: 1, k: 1, weak: false, upgrade_ops: false, copyroot: false, wrap: false, leaf: true, sets: 1, handles: 0, ..BASE },
        "S3dl" => Scope { name: "S3dl", n: 3, r: 1, k: 1, weak: false, upgrade_ops: false, copyroot: false, wrap: false, leaf: true, sets: 1, handles: 1, ..BASE },
        "S2fd" => Scope { name: "S2fd", n: 2, r: 1, k: 1, weak: true, upgrade_ops: true, copyroot: false, wrap: false, fin: true, sets: 1, handles: 1, ..BASE },
        "S3d" => Scope { name: "S3d", n: 3, r: 1, k: 1, weak: false, upgrade_ops: false, sets: 1, handles: 3, ..BASE },
        // metrics
        "S2m" => Scope { name: "S2m", n: 2, r: 1, k: 1, leaf: true, faults: true, metrics_canon: true, ..BASE },
        "S3m" => Scope { name: "S3m", n: 3, r: 1, k: 1, weak: false, upgrade_ops: false, leaf: true, metrics_canon: true, ..BASE },
        "S2fl" => Scope { name: "S2fl", n: 2, r: 1, k: 1, weak: false, upgrade_ops: false, copyroot: false, wrap: false, leaf: true, weakleaf: true, fin: true, ..BASE },
        "S3fl" => Scope { name: "S3fl", n: 3, r: 1, k: 1, weak: false, upgrade_ops: false, copyroot: false, wrap: false, leaf: true, weakleaf: true, fin: true, ..BASE },
        // non-tracing objects as the CHILD of raw barriers (shared between two nodes, then dropped by one)
        "S3lb" => Scope { name: "S3lb", n: 3, r: 1, k: 1, weak: false, upgrade_ops: false, copyroot: false, wrap: false, leaf: true, barrier: true, ..BASE },
        "S2mb" => Scope { name: "S2mb", n: 2, r: 1, k: 1, leaf: true, barrier: true, metrics_canon: true, ..BASE },
        "S3mb" => Scope { name: "S3mb", n: 3, r: 1, k: 1, weak: false, upgrade_ops: false, copyroot: false, wrap: false, leaf: true, barrier: true, metrics_canon: true, ..BASE },
        "S2n" => Scope { name: "S2n", n: 2, r: 1, k: 1, leaf: true, natural: true, metrics_canon: true, max_depth: 9, ..BASE },
        // protocol: all debt classes
        "S2n11" => Scope { name: "S2n11", n: 2, r: 1, k: 1, leaf: true, natural: true, metrics_canon: true, max_depth: 11, ..BASE },
        "S3mw" => Scope { name: "S3mw", n: 3, r: 1, k: 1, copyroot: false, leaf: true, metrics_canon: true, ..BASE },
        "S3pw" => Scope { name: "S3pw", n: 3, r: 1, k: 1, copyroot: false, faults: true, pcallbacks: true, ..BASE },
        "S2p2" => Scope { name: "S2p2", n: 2, r: 2, k: 2, faults: true, pcallbacks: true, ..BASE },
        "S2qz" => Scope { name: "S2qz", n: 2, r: 1, k: 1, classes: 0b111, fin: true, born_canon: true, zero_sleep: true, ..BASE },
        "S2q" => Scope { name: "S2q", n: 2, r: 1, k: 1, classes: 0b111, fin: true, born_canon: true, maproot: true, ..BASE },
        // 3 objects + finalization
        "S3f" => Scope { name: "S3f", n: 3, r: 1, k: 1, fin: true, wrap: false, ..BASE },
        // everything, depth bounded
        "S3x" => Scope { name: "S3x", n: 3, r: 2, k: 2, classes: 0b101, maproot: true, max_depth: 7, ..BASE },
        // product components (C20)
        "P1" => Scope { name: "P1", n: 1, r: 1, k: 1, weak: true, copyroot: false, upgrade_ops: false, wrap: false, sets: 1, handles: 1, ..BASE },
        "P2" => Scope { name: "P2", n: 2, r: 1, k: 1, weak: true, copyroot: false, upgrade_ops: false, wrap: false, sets: 1, handles: 1, ..BASE },
        "P1l" => Scope { name: "P1l", n: 1, r: 1, k: 1, weak: false, copyroot: false, upgrade_ops: false, wrap: false, sets: 1, handles: 1, lend: true, ..BASE },
        "P2l" => Scope { name: "P2l", n: 2, r: 1, k: 1, weak: false, copyroot: false, upgrade_ops: false, wrap: false, sets: 1, handles: 2, lend: true, ..BASE },
        _ => return None,
    };
    Some(s)
}

/// Which properties own an oracle (a violation of the oracle is a violation of each owner).
pub fn owners(oracle: &str) -> &'static [&'static str] {
    // (C06: "a GcWeak keeps the target queryable" after adoption through any barrier path)
    if oracle == "c05.weak_block_released" {
        return &["C05", "C06", "C11", "C20"];
    }
    // (C10: "total_gc_count ... is zero after the arena is dropped")
    if oracle == "c04.count_after_drop" {
        return &["C04", "C10", "C11", "C14", "C20"];
    }
    let head = oracle.split('.').next().unwrap_or("");
    match head {
        // a strongly reachable value destructed / released / unreadable
        // (C08: "sweeping begins only from a fully marked arena" - its observable consequence is exactly this)
        "safe" => &["C01", "C05", "C06", "C07", "C08", "C11", "C13", "C14", "C19", "C20"],
        // the root value's own destructor runs while everything it points to is still intact
        // (C01: not destructed or released while strongly reachable from the root; C13: every safe program satisfies C01)
        "rootdrop" => &["C01", "C13"],
        "once" => &["C04", "C11", "C20"],
        "alloc" => &["C04", "C11", "C20"],
        "api" => &["C01", "C02", "C03", "C04", "C05", "C06", "C07", "C08", "C10", "C11", "C14", "C20"],
        // (C05: "a weak pointer never keeps its target's value alive" is decided by the same probe)
        "c02" => &["C02", "C05", "C11", "C14", "C20"],
        "c03" => &["C03"],
        "c04" => &["C04", "C11", "C14", "C20"],
        "c05" => &["C05", "C11", "C20"],
        "c06" => &["C06"],
        // (C06: "the collection in progress treats the target exactly as if the pointer had been there": a
        // MarkedArena that reports an adopted, reachable child dead contradicts it)
        "c07" => &["C07", "C06"],
        "c08" => &["C08"],
        "c10" => &["C10"],
        // (C04: a failed constructor / root mapping must still destruct and release everything)
        "c11" => &["C11", "C04"],
        "c14" => &["C14"],
        "c20" => &["C20"],
        _ => &[],
    }
}

pub fn owned_by(oracle: &str, prop: &str) -> bool {
    owners(oracle).contains(&prop)
}
