//! Model-checking harness for kyren/gc-arena: explicit-state exploration of the real `Arena`.
//! See /verif/DESIGN.md.

pub mod crash;
pub mod engine;
pub mod json;
pub mod ops;
pub mod product;
pub mod scopes;
pub mod talloc;
pub mod world;
pub mod wmon;
pub mod wops;

#[global_allocator]
static GLOBAL: talloc::Tracking = talloc::Tracking;

/// A violated oracle. `oracle` is a dotted name whose ownership by properties is defined in
/// `scopes::owners`.
#[derive(Clone, Debug)]
pub struct Viol {
    pub oracle: &'static str,
    pub msg: String,
    /// what the allocator reported when the execution that ended with this violation was torn down (an allocator error
    /// or a block the arena never returned): a second, independent fact about the same history. The engine reports it
    /// when the running property owns it and does not own `oracle` (otherwise the branch is pruned as foreign and a
    /// leak that only teardown can show would never be attributed to the property that is about leaks).
    pub also: Option<Box<Viol>>,
}

impl Viol {
    pub fn new(oracle: &'static str, msg: impl Into<String>) -> Viol {
        Viol { oracle, msg: msg.into(), also: None }
    }
}

pub type VResult<T = ()> = Result<T, Viol>;

#[macro_export]
macro_rules! viol {
    ($o:expr, $($t:tt)*) => { return Err($crate::Viol::new($o, format!($($t)*))) };
}

/// 128-bit hash of a canonical state (two SipHash-1-3 runs with different prefixes).
pub fn hash128(bytes: &[u8]) -> u128 {
    use std::hash::Hasher;
    let mut a = std::collections::hash_map::DefaultHasher::new();
    a.write_u8(0x5a);
    a.write(bytes);
    let mut b = std::collections::hash_map::DefaultHasher::new();
    b.write_u8(0xc3);
    b.write(bytes);
    b.write_u64(bytes.len() as u64);
    ((a.finish() as u128) << 64) | b.finish() as u128
}
