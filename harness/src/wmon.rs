//! Transition monitors (C03, C07, C08, C10), the enabled-operation menu and the per-state probes.

use gc_arena::arena::CollectionPhase as P;

use crate::{
    VResult, Viol,
    ops::{K, Op},
    scopes::Scope,
    talloc, viol,
    wops::{Caught, NOFIRE, guarded},
    world::*,
};

fn is_callback(op: Op) -> bool {
    op.is_mutator() || op.is_fin()
}

impl World {
    /// Execute one operation with all transition monitors.
    pub fn apply(&mut self, op: Op) -> VResult {
        *self.snap_cache.borrow_mut() = None;
        let pre = self.phase();
        let cb = is_callback(op);
        let prot_now = if matches!(pre, P::Marking | P::Marked) && !self.resurrected.is_empty() { self.sh.closure(&self.resurrected) } else { vec![] };
        let debt_pre = self.metrics.allocation_debt();
        let cnt_pre = self.metrics.total_gc_count();
        if pre == P::Sleeping {
            self.mutated = false;
        }
        self.credit_calls = 0;
        self.last_fin_ran = false;
        let drops0 = drops_len();
        let garbage_pre_dropped: Vec<bool> = self.sh.objs.iter().map(|o| o.dropped).collect();
        let nonempty_pre = cnt_pre > 0;
        let mut ret_some = None;
        let snap_pre = if self.verify && (op.is_mutator()) { Some(self.arena().verif_heap_snapshot(SNAP_CAP)) } else { None };
        let snap_pre2 = snap_pre.clone();
        let nobj0 = self.sh.objs.len();
        let res = self.apply_inner(op, &mut ret_some);
        let post = self.phase();
        // objects allocated by this callback while the arena was Sweeping are not on the sweep list
        if pre == P::Sweeping {
            for o in &mut self.sh.objs[nobj0..] {
                o.born_sweeping = true;
            }
        }
        res?;
        if matches!(op.k, K::CycleStep | K::FinCycle | K::MarkStep | K::FinMark | K::StartSweep) && pre == P::Sweeping {
            if let Some((i, _)) = self.sh.objs.iter().enumerate().find(|(_, o)| o.born_sweeping && o.dropped) {
                viol!("c08.swept_into_next_cycle", "{op:?} started while Sweeping and destructed object {i}, which was allocated during that sweep: the call ran on into a new cycle");
            }
        }
        if post != P::Sweeping || matches!(op.k, K::Step | K::Fault) {
            for o in &mut self.sh.objs {
                o.born_sweeping = false;
            }
        }
        let debt_post = self.metrics.allocation_debt();

        // ---- coverage of barrier situations (hook used for accounting only)
        if let Some(sp) = snap_pre {
            if sp.phase == 1 {
                let col = |id: u8| -> Option<u8> {
                    let a = self.addrs.iter().rev().find(|e| e.1 == id)?.0;
                    sp.all.iter().find(|o| o.addr == a).map(|o| o.color)
                };
                let (par, ch) = match op.k {
                    K::Link => (col(op.a), col(op.c)),
                    K::Adopt => (col(op.b), col(op.d)),
                    K::CellSet => (self.sh.objs[op.a as usize].cell.and_then(col), col(op.b)),
                    K::Stash => (Some(3), col(op.b)),
                    _ => (None, None),
                };
                if let (Some(3), Some(c)) = (par, ch) {
                    self.cov.bump(match c {
                        0 => "adopt:black_parent<-white_child",
                        1 => "adopt:black_parent<-whiteweak_child",
                        2 => "adopt:black_parent<-gray_child",
                        _ => "adopt:black_parent<-black_child",
                    });
                }
                if matches!(op.k, K::NewRoot | K::CopyRoot | K::UpRoot | K::FetchRoot) && !sp.root_needs_trace {
                    self.cov.bump("root_store_after_root_traced");
                }
                if matches!(op.k, K::TouchLeaf) {
                    if let Some(3) = self.sh.objs[op.a as usize].leaf.and_then(col) {
                        self.cov.bump("barrier_on_black_nontracing");
                        if self.metrics.verif_counters().0[5] == 0 {
                            self.cov.bump("barrier_on_black_nontracing_with_traced_zero");
                        }
                    }
                }
            }
        }
        if op.is_collector() && drops_len() > drops0 {
            self.cov.add("destructors_run_by_collector", (drops_len() - drops0) as u64);
            if pre == P::Sweeping && post == P::Sweeping {
                self.cov.bump("sweep_step_freed_mid_sweep");
            }
        }

        // ---- C10 transition monitors
        // (a finalize operation first runs finish_marking / mark_debt, which is collection work)
        if cb && !(op.is_fin() && (pre != P::Marked || (op.k == K::FinQuery && op.a == 1))) {
            // A forward barrier / resurrect may mark its child on the spot, which earns one mark credit -
            // but only the *first* marking of an object counts. The pre-state colour of the child (read
            // through the snapshot hook) is used to tighten the allowance, never to excuse a decrease.
            let mut credit_calls = self.credit_calls;
            if let Some(sp) = &snap_pre2 {
                let col = |id: u8| -> Option<u8> {
                    let a = self.addrs.iter().rev().find(|e| e.1 == id)?.0;
                    sp.all.iter().find(|o| o.addr == a).map(|o| o.color)
                };
                let child = match op.k {
                    K::Adopt => Some(op.d),
                    K::BarrierOnly | K::AdoptWeak | K::LeafBarrier => Some(op.c),
                    K::AdoptLeaf => self.sh.objs[op.c as usize].leaf,
                    K::AdoptBy2 => Some(op.a),
                    K::AdoptUp => self.sh.objs[op.b as usize].w,
                    K::AdoptWeakFrom => self.sh.objs[op.c as usize].w,
                    _ => None,
                };
                if let Some(c) = child {
                    if matches!(col(c), Some(1..=3)) {
                        credit_calls = 0;
                    }
                }
            }
            let allowed = credit_calls as f64 * PACING.mark_factor + 1e-9;
            if debt_post < debt_pre - allowed {
                viol!(
                    "c10.debt_decreased_in_callback",
                    "allocation_debt() went from {debt_pre} to {debt_post} across a callback ({op:?}) that made {} forward-barrier/resurrect call(s) on a not yet marked object",
                    credit_calls
                );
            }
        }
        if matches!(op.k, K::CloneH | K::CloneFromH | K::DropH | K::DropHL | K::PDropH) && (debt_post != debt_pre || self.metrics.total_gc_count() != cnt_pre) {
            viol!("c10.handle_op_changed_metrics", "{op:?} changed metrics");
        }

        // ---- C08 contract table
        self.c08(op, pre, post, ret_some)?;

        // ---- garbage that existed when the cycle woke is destructed by the end of that cycle, whatever weak look-ups,
        //      barriers and allocations happen in between (C02 exactness / C05 "a weak pointer never keeps its target alive")
        if self.sc.exact_cycle {
            if matches!(op.k, K::Step | K::Fault) {
                self.wake_known = false;
                self.wake_garbage.clear();
            } else {
                if op.is_collector() && pre == P::Sleeping && (post != P::Sleeping || op.k == K::FinCycle) && nonempty_pre {
                    // the collector woke inside this call: the shadow graph has not changed since before the call
                    let reach = self.sh.reach_mask();
                    self.wake_garbage = (0..self.sh.objs.len() as u8).filter(|i| !reach[*i as usize] && !garbage_pre_dropped.get(*i as usize).copied().unwrap_or(true)).collect();
                    self.wake_known = true;
                }
                let reach = self.sh.reach_mask();
                self.wake_garbage.retain(|g| !reach[*g as usize]);
                if self.wake_known && post == P::Sleeping && (pre != P::Sleeping || op.k == K::FinCycle) {
                    for g in &self.wake_garbage {
                        if !self.sh.objs[*g as usize].dropped {
                            viol!("c02.garbage_at_wake_survived", "object {g} was already unreachable when this cycle woke and stayed so, but the cycle ended without destructing it");
                        }
                    }
                    self.wake_known = false;
                    self.wake_garbage.clear();
                }
            }
        }
        // ---- C07 bookkeeping
        if !self.sc.fin {
            return Ok(());
        }
        if (cb || matches!(op.k, K::DropH | K::DropHL | K::CloneH | K::CloneFromH | K::PDropH)) && matches!(pre, P::Marking | P::Marked) {
            // (dropping a handle un-roots its target: a mutation of the root set)
            self.mutated = true;
        }
        if op.k == K::FinQuery && matches!(pre, P::Marking | P::Marked) {
            // a pure query is not a mutation
            self.mutated = self.mutated && true;
        }
        if post == P::Sleeping {
            self.mutated = false;
        }
        if op.is_collector() && matches!(pre, P::Marking | P::Marked) && matches!(post, P::Sweeping | P::Sleeping) {
            self.cycle_prot = prot_now;
            self.resurrected.clear();
        }
        if matches!(op.k, K::Step | K::Fault) {
            // wrapping / faulting calls may cross a cycle boundary invisibly: forget the cycle
            self.cycle_prot.clear();
            self.resurrected.clear();
            self.mutated = true;
        }
        for p in &self.cycle_prot {
            if self.sh.objs[*p as usize].dropped {
                viol!("c07.resurrected_destructed", "object {p}, in the strong closure of an object resurrected in this cycle, was destructed in the same cycle");
            }
        }
        if post == P::Sleeping || matches!(op.k, K::Step) {
            self.cycle_prot.clear();
            if post == P::Sleeping {
                self.resurrected.clear();
            }
        }
        Ok(())
    }

    fn c08(&self, op: Op, pre: P, post: P, ret_some: Option<bool>) -> VResult {
        let nonempty = self.metrics.total_gc_count() > 0;
        if is_callback(op) || matches!(op.k, K::CloneH | K::CloneFromH | K::DropH | K::DropHL | K::PDropH | K::AdjustDebt | K::SetPacing) {
            if op.is_fin() && !self.last_fin_ran {
                if post != pre {
                    viol!("c08.callback_phase", "{op:?}: no MarkedArena was handed out but the phase moved {pre:?} -> {post:?}");
                }
            } else if op.is_fin() {
                // finish_marking ran first: the callback itself starts from Marked
                if !matches!(post, P::Marked | P::Marking) {
                    viol!("c08.callback_phase", "{op:?}: finalize ended in {post:?}");
                }
            } else if !(pre == post || (pre == P::Marked && post == P::Marking)) {
                viol!("c08.callback_phase", "{op:?} changed the phase {pre:?} -> {post:?}");
            }
            return Ok(());
        }
        let class = op.a;
        match op.k {
            K::FinMark => {
                if pre == P::Sweeping {
                    if post != P::Sweeping || ret_some != Some(false) {
                        viol!("c08.finish_marking", "finish_marking while Sweeping: phase {post:?}, MarkedArena returned: {ret_some:?}");
                    }
                } else if post != P::Marked || ret_some != Some(true) {
                    viol!("c08.finish_marking", "finish_marking from {pre:?}: phase {post:?}, MarkedArena returned: {ret_some:?}");
                }
            }
            K::MarkStep => {
                if pre == P::Sweeping && post != P::Sweeping {
                    viol!("c08.mark_debt", "mark_debt while Sweeping moved to {post:?}");
                }
                if pre == P::Marked && post != P::Marked {
                    viol!("c08.mark_debt", "mark_debt left Marked for {post:?}");
                }
                if ret_some != Some(post == P::Marked) {
                    viol!("c08.mark_debt", "mark_debt {pre:?}->{post:?} returned MarkedArena: {ret_some:?}");
                }
                if post == P::Sweeping && pre != P::Sweeping {
                    viol!("c08.mark_debt", "mark_debt reached Sweeping");
                }
                if post == P::Sleeping && pre != P::Sleeping {
                    viol!("c08.mark_debt", "mark_debt went {pre:?} -> Sleeping");
                }
                if !self.sc.natural && class == 1 && post != pre {
                    viol!("c08.zero_debt", "mark_debt with zero debt moved {pre:?} -> {post:?}");
                }
                if !self.sc.natural && class == 2 && nonempty && pre != P::Sweeping && post != P::Marked {
                    viol!("c08.mark_debt", "mark_debt with huge debt ended in {post:?}");
                }
            }
            K::CycleStep => {
                if pre == P::Sweeping && matches!(post, P::Marking | P::Marked) {
                    viol!("c08.cycle_debt", "cycle_debt passed from Sweeping into {post:?} within one call");
                }
                if post != P::Sleeping && ph(post) < ph(pre) {
                    viol!("c08.cycle_debt", "cycle_debt went backwards {pre:?} -> {post:?}");
                }
                if pre != P::Sleeping && post == P::Sleeping && false {
                    unreachable!();
                }
                if !self.sc.natural && class == 1 && post != pre {
                    viol!("c08.zero_debt", "cycle_debt with zero debt moved {pre:?} -> {post:?}");
                }
                if !self.sc.natural && class == 2 && nonempty && post != P::Sleeping {
                    viol!("c08.cycle_debt", "cycle_debt with huge debt ended in {post:?}, not Sleeping");
                }
            }
            K::Step => {
                if !self.sc.natural && class == 1 && post != pre {
                    viol!("c08.zero_debt", "collect_debt with zero debt moved {pre:?} -> {post:?}");
                }
                if !self.sc.natural && class == 2 && nonempty && post != P::Sleeping {
                    viol!("c08.collect_debt", "collect_debt with huge debt ended in {post:?}, not Sleeping");
                }
            }
            K::FinCycle => {
                if post != P::Sleeping {
                    viol!("c08.finish_cycle", "finish_cycle ended in {post:?}");
                }
            }
            K::StartSweep => {
                if pre == P::Sweeping {
                    if ret_some != Some(false) || post != P::Sweeping {
                        viol!("c08.finish_marking", "finish_marking while Sweeping: phase {post:?}, returned {ret_some:?}");
                    }
                } else if ret_some != Some(true) || post != P::Sweeping {
                    viol!("c08.start_sweeping", "start_sweeping from {pre:?} ended in {post:?} (MarkedArena: {ret_some:?})");
                }
            }
            _ => {}
        }
        Ok(())
    }

    /// The menu of operations a safe program could perform in this state.
    pub fn enabled(&self) -> Vec<Op> {
        let sc: &Scope = &self.sc;
        let mut ops = Vec::with_capacity(64);
        if self.arena.is_none() {
            return ops;
        }
        let room = self.room();
        let reach = self.sh.reach();
        let nodes: Vec<u8> = reach.iter().copied().filter(|i| self.sh.objs[*i as usize].kind == KNODE).collect();
        let vias: &[u8] = if sc.maproot { &[0, 1, 2] } else { &[0] };
        for r in 0..sc.r {
            for via in vias {
                if room {
                    ops.push(Op::n2(K::NewRoot, r, *via));
                }
                if self.sh.roots[r as usize].is_some() {
                    ops.push(Op::n2(K::ClearRoot, r, *via));
                }
            }
            if sc.copyroot {
                for c in &nodes {
                    if self.sh.roots[r as usize] != Some(*c) {
                        ops.push(Op::n3(K::CopyRoot, r, *c, 0));
                    }
                }
            }
        }
        for p in &nodes {
            let so = &self.sh.objs[*p as usize];
            for s in 0..(if sc.graph { sc.k } else { 0 }) {
                if room {
                    ops.push(Op::n2(K::NewChild, *p, s));
                }
                if so.s[s as usize].is_some() {
                    ops.push(Op::n2(K::Unlink, *p, s));
                }
                for c in &nodes {
                    if so.s[s as usize] != Some(*c) {
                        ops.push(Op::n3(K::Link, *p, s, *c));
                    }
                }
            }
            if sc.weak {
                for c in &nodes {
                    if so.w != Some(*c) {
                        ops.push(Op::n2(K::SetWeak, *p, *c));
                    }
                }
                if so.w.is_some() {
                    ops.push(Op::n1(K::ClearWeak, *p));
                    if sc.upgrade_ops && sc.exact_cycle {
                        ops.push(Op::n1(K::UpOnly, *p));
                    }
                    if sc.upgrade_ops {
                        for q in &nodes {
                            for s in 0..sc.k {
                                ops.push(Op::n3(K::UpStore, *p, *q, s));
                            }
                        }
                        for r in 0..sc.r {
                            ops.push(Op::n2(K::UpRoot, *p, r));
                        }
                    }
                }
            }
        }
        if room {
            ops.push(Op::n0(K::Garbage));
        }
        if sc.holding && room {
            for c in &nodes {
                for p in &nodes {
                    ops.push(Op::n3(K::NewChildHolding, *p, 0, *c));
                }
                for r in 0..sc.r {
                    ops.push(Op::n2(K::NewRootHolding, r, *c));
                }
            }
        }
        if sc.barrier {
            for p in &nodes {
                let so = &self.sh.objs[*p as usize];
                for path in 1..=4u8 {
                    for sl in 0..sc.k.min(1) {
                        if room {
                            ops.push(Op::n3(K::AdoptNew, path, *p, sl));
                        }
                        for c in &nodes {
                            if so.s[sl as usize] != Some(*c) {
                                ops.push(Op::n4(K::Adopt, path, *p, sl, *c));
                            }
                        }
                        for h in &nodes {
                            if self.sh.objs[*h as usize].w.is_some() {
                                ops.push(Op::n4(K::AdoptUp, path, *h, *p, sl));
                            }
                        }
                    }
                }
                if sc.weak {
                    for path in 5..=7u8 {
                        if room {
                            ops.push(Op::n2(K::AdoptWeakNew, path, *p));
                        }
                        for c in &nodes {
                            if so.w != Some(*c) {
                                ops.push(Op::n3(K::AdoptWeak, path, *p, *c));
                            }
                        }
                        for h in &nodes {
                            // only for targets that are not strongly reachable (the others are AdoptWeak's)
                            if let Some(t) = self.sh.objs[*h as usize].w {
                                if h != p && so.w != Some(t) && !nodes.contains(&t) {
                                    ops.push(Op::n3(K::AdoptWeakFrom, path, *p, *h));
                                }
                            }
                        }
                    }
                }
                for path in 1..=7u8 {
                    for c in &nodes {
                        ops.push(Op::n3(K::BarrierOnly, path, *p, *c));
                    }
                }
            }
        }
        if sc.barrier2 {
            for p in &nodes {
                for c0 in &nodes {
                    for c1 in &nodes {
                        if self.sh.objs[*p as usize].s != [Some(*c0), Some(*c1)] {
                            ops.push(Op::n3(K::Adopt2, *p, *c0, *c1));
                        }
                    }
                }
            }
            for c in &nodes {
                for p0 in &nodes {
                    for p1 in &nodes {
                        if p0 < p1 {
                            ops.push(Op::n3(K::AdoptBy2, *c, *p0, *p1));
                        }
                    }
                }
            }
        }
        if sc.cells {
            for p in &nodes {
                let so = &self.sh.objs[*p as usize];
                match so.cell {
                    None => {
                        if room {
                            for kind in 0..(if sc.weak { 5u8 } else { 3u8 }) {
                                ops.push(Op::n2(K::NewCell, *p, kind));
                            }
                        }
                    }
                    Some(cid) => {
                        ops.push(Op::n1(K::DropCell, *p));
                        let co = &self.sh.objs[cid as usize];
                        if co.kind == KCELL_W || co.kind == KCELL_WR {
                            for c in &nodes {
                                if co.w != Some(*c) {
                                    ops.push(Op::n2(K::CellSetWeak, *p, *c));
                                }
                            }
                            if room {
                                ops.push(Op::n1(K::CellSetWeakNew, *p));
                            }
                            if co.w.is_some() {
                                ops.push(Op::n1(K::CellClear, *p));
                            }
                            continue;
                        }
                        for c in &nodes {
                            if co.s[0] != Some(*c) || co.kind == KCELL_O {
                                ops.push(Op::n2(K::CellSet, *p, *c));
                            }
                            if co.kind == KCELL_O {
                                ops.push(Op::n2(K::CellInit, *p, *c));
                            }
                        }
                        if room {
                            ops.push(Op::n1(K::CellSetNew, *p));
                            if co.kind == KCELL_O && co.s[0].is_none() {
                                ops.push(Op::n1(K::CellInitNew, *p));
                            }
                        }
                        if co.kind != KCELL_O && co.s[0].is_some() {
                            ops.push(Op::n1(K::CellClear, *p));
                        }
                        for h in &nodes {
                            if self.sh.objs[*h as usize].w.is_some() {
                                ops.push(Op::n2(K::CellSetUp, *h, *p));
                            }
                        }
                    }
                }
            }
        }
        if sc.leaf {
            for p in &nodes {
                let so = &self.sh.objs[*p as usize];
                if room && so.leaf.is_none() {
                    ops.push(Op::n1(K::NewLeaf, *p));
                }
                if so.leaf.is_some() {
                    ops.push(Op::n1(K::TouchLeaf, *p));
                    ops.push(Op::n1(K::DropLeaf, *p));
                    if sc.barrier {
                        for path in [1u8, 2, 3, 5, 6] {
                            for c in &nodes {
                                ops.push(Op::n3(K::LeafBarrier, path, *p, *c));
                            }
                        }
                    }
                }
                if sc.barrier {
                    for q in &nodes {
                        if let Some(l) = self.sh.objs[*q as usize].leaf {
                            if q != p && so.leaf != Some(l) {
                                for path in 1..=4u8 {
                                    ops.push(Op::n3(K::AdoptLeaf, path, *p, *q));
                                }
                            }
                        }
                    }
                }
                if sc.weakleaf {
                    for q in &nodes {
                        if let Some(l) = self.sh.objs[*q as usize].leaf {
                            if so.wl != Some(l) {
                                ops.push(Op::n2(K::SetWeakLeaf, *p, *q));
                            }
                        }
                    }
                    if so.wl.is_some() {
                        ops.push(Op::n1(K::ClearWeakLeaf, *p));
                        for q in &nodes {
                            ops.push(Op::n2(K::UpLeaf, *p, *q));
                        }
                        if sc.fin {
                            ops.push(Op::n1(K::FinResLeaf, *p));
                        }
                    }
                }
            }
        }
        if sc.sets > 0 {
            for hi in 0..sc.handles {
                match self.sh.handles[hi as usize] {
                    None => {
                        // canonical choice: only the first free handle slot may be filled
                        if (0..hi).all(|j| self.sh.handles[j as usize].is_some()) {
                            for set in 0..sc.sets {
                                for c in &nodes {
                                    ops.push(Op::n3(K::Stash, hi, *c, set));
                                }
                                if room && hi + 1 < sc.handles && self.sh.handles[hi as usize + 1].is_none() {
                                    for c in &nodes {
                                        ops.push(Op::n3(K::StashPair, hi, *c, set));
                                    }
                                }
                                if sc.weak && sc.upgrade_ops {
                                    for h in &nodes {
                                        if self.sh.objs[*h as usize].w.is_some() {
                                            ops.push(Op::n3(K::StashUp, hi, *h, set));
                                        }
                                    }
                                }
                            }
                            for from in 0..sc.handles {
                                if self.sh.handles[from as usize].is_some() {
                                    ops.push(Op::n2(K::CloneH, from, hi));
                                }
                            }
                        }
                    }
                    Some(_) => {
                        if self.lent[hi as usize].is_none() {
                            ops.push(Op::n1(K::DropH, hi));
                            ops.push(Op::n1(K::PDropH, hi));
                            for from in 0..sc.handles {
                                if from != hi && self.hs[from as usize].is_some() && self.sh.handles[from as usize] != self.sh.handles[hi as usize] {
                                    ops.push(Op::n2(K::CloneFromH, from, hi));
                                }
                            }
                        }
                        for r in 0..sc.r {
                            ops.push(Op::n2(K::FetchRoot, hi, r));
                        }
                        for p in &nodes {
                            ops.push(Op::n3(K::FetchLink, hi, *p, 0));
                        }
                    }
                }
            }
        }
        if sc.sets > 0 && sc.leaf {
            for hi in 0..2u8 {
                match self.sh.lhandles[hi as usize] {
                    None => {
                        if (0..hi).all(|j| self.sh.lhandles[j as usize].is_some()) {
                            for set in 0..sc.sets {
                                for p in &nodes {
                                    if self.sh.objs[*p as usize].leaf.is_some() {
                                        ops.push(Op::n3(K::StashLeaf, hi, *p, set));
                                    }
                                }
                            }
                        }
                    }
                    Some(_) => ops.push(Op::n1(K::DropHL, hi)),
                }
            }
        }
        if sc.fin {
            ops.push(Op::n1(K::FinQuery, 0));
            if !sc.fin_min {
                ops.push(Op::n1(K::FinQuery, 1));
            }
            for p in &nodes {
                if self.sh.objs[*p as usize].w.is_some() {
                    ops.push(Op::n1(K::FinRes, *p));
                    ops.push(Op::n1(K::FinResChild, *p));
                    if !sc.fin_min {
                        ops.push(Op::n1(K::FinGcRes, *p));
                        for q in &nodes {
                            ops.push(Op::n3(K::FinResStore, *p, *q, 0));
                            ops.push(Op::n2(K::FinResInto, *p, *q));
                        }
                    }
                }
            }
        }
        // collector
        for class in 0..3u8 {
            if sc.classes & (1 << class) != 0 {
                ops.push(Op::n1(K::CycleStep, class));
                ops.push(Op::n1(K::MarkStep, class));
                if sc.wrap {
                    ops.push(Op::n1(K::Step, class));
                }
            }
        }
        ops.extend([Op::n0(K::FinMark), Op::n0(K::FinCycle), Op::n0(K::StartSweep)]);
        if sc.faults {
            for which in 0..10u8 {
                for k in 0..(sc.n as u8 + 1) {
                    ops.push(Op::n2(K::Fault, which, k));
                }
            }
        }
        if sc.pcallbacks {
            for p in &nodes {
                for c in &nodes {
                    if self.sh.objs[*p as usize].s[0] != Some(*c) {
                        ops.push(Op::n3(K::PLink, *p, 0, *c));
                    }
                }
                if sc.fin && self.sh.objs[*p as usize].w.is_some() {
                    ops.push(Op::n1(K::PFin, *p));
                }
            }
            if room {
                ops.push(Op::n0(K::PGarbage));
                for r in 0..sc.r {
                    ops.push(Op::n1(K::PNewRoot, r));
                }
            }
        }
        if sc.natural {
            for i in 0..4u8 {
                ops.push(Op::n1(K::AdjustDebt, i));
            }
            for i in [0u8, 1, 3] {
                if self.pacing_idx != i {
                    ops.push(Op::n1(K::SetPacing, i));
                }
            }
        }
        ops
    }

    // --------------------------------------------------------------------------------------------
    // probes (run on a private replay of the state; they consume the world)

    /// C02: two `finish_cycle` calls leave exactly the reachable values; shells are released by the
    /// first full cycle after no reachable weak pointer refers to them.
    /// `apply` for the probes: a violation of the phase contract or of a metrics monitor (other properties' oracles,
    /// evaluated inside `apply`) must not pre-empt the probe's own question; it is kept and returned at the end if the
    /// probe itself finds nothing.
    fn apply_in_probe(&mut self, op: Op, kept: &mut Option<crate::Viol>) -> VResult {
        match self.apply(op) {
            Err(v) if v.oracle.starts_with("c08.") || v.oracle.starts_with("c10.") => {
                kept.get_or_insert(v);
                Ok(())
            }
            r => r,
        }
    }

    pub fn probe_c02(mut self) -> VResult {
        let mut kept: Option<crate::Viol> = None;
        // "later collections still reclaim all garbage": also garbage that is made now
        if self.arena.is_some() && self.room() && self.arena().collection_phase() != gc_arena::arena::CollectionPhase::Sweeping {
            self.apply_in_probe(Op::n0(K::Garbage), &mut kept)?;
        }
        self.apply_in_probe(Op::n0(K::FinCycle), &mut kept)?;
        self.apply_in_probe(Op::n0(K::FinCycle), &mut kept)?;
        let reach = self.sh.reach_mask();
        for (i, o) in self.sh.objs.iter().enumerate() {
            if !o.dropped && !reach[i] {
                viol!("c02.unreachable_survived", "unreachable object {i} (kind {}) still undestructed after two finish_cycle calls", o.kind);
            }
        }
        let mut shells = vec![false; self.sh.objs.len()];
        for (i, o) in self.sh.objs.iter().enumerate() {
            if reach[i] {
                for t in o.w.into_iter().chain(o.wl) {
                    if self.sh.objs[t as usize].dropped {
                        shells[t as usize] = true;
                    }
                }
            }
        }
        let nreach = reach.iter().filter(|b| **b).count();
        let nshell = shells.iter().filter(|b| **b).count();
        // (counted by the allocator over the harness' own objects, so that bystander allocations such
        // as a root set's internal object do not enter the comparison)
        let cnt = talloc::gc_live_count_range(self.base, self.base + 120);
        if cnt != nreach + nshell {
            viol!("c02.count", "after two finish_cycle calls {cnt} allocations are still held, expected {nreach} reachable + {nshell} weakly referenced shells");
        }
        for (i, o) in self.sh.objs.iter().enumerate() {
            if !reach[i] && !shells[i] && !o.freed {
                viol!("c02.retained", "block of unreachable object {i} still allocated after two finish_cycle calls");
            }
        }
        // release the shells
        let holders: Vec<u8> = (0..self.sh.objs.len() as u8).filter(|i| reach[*i as usize] && self.sh.objs[*i as usize].w.map(|t| self.sh.objs[t as usize].dropped).unwrap_or(false)).collect();
        for h in holders {
            if self.sh.objs[h as usize].kind == KNODE {
                self.apply(Op::n1(K::ClearWeak, h))?;
            } else {
                // a weak cell: cleared through the node that owns it
                let p = (0..self.sh.objs.len() as u8).find(|p| reach[*p as usize] && self.sh.objs[*p as usize].cell == Some(h)).expect("owner of a reachable cell");
                self.apply(Op::n1(K::CellClear, p))?;
            }
        }
        let holders: Vec<u8> = (0..self.sh.objs.len() as u8).filter(|i| reach[*i as usize] && self.sh.objs[*i as usize].wl.map(|t| self.sh.objs[t as usize].dropped).unwrap_or(false)).collect();
        for h in holders {
            self.apply(Op::n1(K::ClearWeakLeaf, h))?;
        }
        self.apply(Op::n0(K::FinCycle))?;
        let cnt = talloc::gc_live_count_range(self.base, self.base + 120);
        if cnt != nreach {
            viol!("c02.shell_not_released", "one full cycle after the last weak pointer to a shell was cleared {cnt} allocations are still held, expected {nreach}");
        }
        if let Some(v) = kept {
            return Err(v);
        }
        self.finish()
    }

    /// C04: drop the arena here. Every value destructed exactly once, every block returned once
    /// with its layout, count reads zero, handles stay harmless.
    pub fn probe_c04(mut self) -> VResult {
        let metrics = self.metrics.clone();
        let arena = self.arena.take();
        guarded("drop(Arena)", move || drop(arena))?;
        self.sync_logs()?;
        for (i, o) in self.sh.objs.iter().enumerate() {
            if !o.dropped {
                viol!("c04.not_destructed", "object {i} (kind {}) was never destructed although the arena was dropped", o.kind);
            }
            if !o.freed {
                viol!("c04.not_released", "block of object {i} was not returned to the allocator when the arena was dropped");
            }
        }
        if metrics.total_gc_count() != 0 {
            viol!("c04.count_after_drop", "total_gc_count() = {} after the arena was dropped", metrics.total_gc_count());
        }
        if talloc::gc_live_count_range(self.base, self.base + 128) != 0 {
            viol!("c04.not_released", "a Gc block (root set) is still allocated after the arena was dropped");
        }
        // handles outlive the arena harmlessly
        if self.sc.sets > 0 {
            let hs = std::mem::replace(&mut self.hs, [None, None, None]);
            guarded("DynamicRoot clone/as_ptr/drop after arena death", move || {
                for h in hs.iter().flatten() {
                    let c = h.clone();
                    let _ = c.as_ptr();
                    drop(c);
                }
                drop(hs);
            })
            .map_err(|v| Viol::new("c14.handle_after_arena", v.msg))?;
        }
        drop(metrics);
        self.finish()
    }

    /// C03: a callback of each kind under huge debt; temporaries and upgraded pointers stay valid.
    pub fn probe_c03(mut self) -> VResult {
        if self.metrics.total_gc_count() > 0 {
            self.metrics.adjust_debt(1.0e9);
        }
        let kinds: &[u8] = if self.phase() == P::Sweeping { &[0, 1, 2, 3] } else { &[0, 1, 2, 3, 4] };
        for kind in kinds {
            let (d0, f0) = (drops_len(), talloc::gc_frees_len());
            match kind {
                0 => {
                    self.with_mutate(|w, mc, _, m| c03_body(w, mc, m, d0, f0))?;
                }
                1..=3 => {
                    self.with_root(kind - 1, |w, mc, _, m| c03_body(w, mc, m, d0, f0))?;
                }
                _ => {
                    // finalize
                    let mut arena = self.arena.take().unwrap();
                    let this: &World = &self;
                    let r = guarded("finalize", || -> VResult {
                        #[allow(unused_mut)]
                        if let Some(mut ma) = arena.finish_marking() {
                            ma.finalize(|fc, root| {
                                let m = this.locate(root)?;
                                c03_body(this, fc, &m, d0, f0)
                            })?;
                        }
                        Ok(())
                    });
                    self.arena = Some(arena);
                    if let Caught::Done(r) = r? {
                        r?;
                    }
                }
            }
            // the two temporaries are garbage now; mark their tokens as known objects
            self.sync_c03_temporaries();
        }
        self.finish_quiet();
        Ok(())
    }

    fn sync_c03_temporaries(&mut self) {
        self.drops_seen = drops_len();
    }

    /// C08: each API call with each debt class from this state.
    pub fn probe_c08(self, which: u8) -> VResult {
        let op = match which {
            0..=2 => Op::n1(K::CycleStep, which),
            3..=5 => Op::n1(K::MarkStep, which - 3),
            6..=8 => Op::n1(K::Step, which - 6),
            9 => Op::n0(K::FinMark),
            10 => Op::n0(K::FinCycle),
            _ => Op::n0(K::StartSweep),
        };
        let mut w = self;
        w.apply(op)?;
        w.finish()
    }
    pub const C08_PROBES: u8 = 12;

    /// C14: foreign presentations. Every live handle presented to a set of another arena (and to
    /// the sibling set) must be refused; own set accepts.
    pub fn probe_c14(mut self) -> VResult {
        if self.sc.sets == 0 {
            return self.finish();
        }
        let other = World::new(Scope { sets: 1, ..self.sc }, 512);
        {
            let this: &World = &self;
            let r = guarded("contains/try_fetch/fetch presentations", || -> VResult {
                for (hi, h) in this.hs.iter().enumerate() {
                    let Some(h) = h else { continue };
                    let (_, set, _) = this.sh.handles[hi].unwrap();
                    other.arena().mutate(|_, root| -> VResult {
                        let s = root.sets[0].unwrap();
                        if s.contains(h) {
                            viol!("c14.foreign_contains", "set of another arena claims to contain handle {hi}");
                        }
                        if s.try_fetch(h).is_ok() {
                            viol!("c14.foreign_try_fetch", "try_fetch on a set of another arena succeeded for handle {hi}");
                        }
                        let p = std::panic::catch_unwind(std::panic::AssertUnwindSafe(|| {
                            let _ = s.fetch(h);
                        }));
                        if p.is_ok() {
                            viol!("c14.foreign_fetch", "fetch on a set of another arena did not panic for handle {hi}");
                        }
                        Ok(())
                    })?;
                    this.arena().mutate(|_, root| -> VResult {
                        for k in 0..this.sc.sets {
                            let s = root.sets[k as usize].unwrap();
                            let own = k == set;
                            if s.contains(h) != own {
                                viol!("c14.contains", "set {k}.contains(handle {hi} issued by set {set}) = {}", s.contains(h));
                            }
                            if s.try_fetch(h).is_ok() != own {
                                viol!("c14.try_fetch", "set {k}.try_fetch(handle {hi} issued by set {set}) ok = {}", s.try_fetch(h).is_ok());
                            }
                            if !own {
                                let p = std::panic::catch_unwind(std::panic::AssertUnwindSafe(|| {
                                    let _ = s.fetch(h);
                                }));
                                if p.is_ok() {
                                    viol!("c14.foreign_fetch", "fetch on the sibling set did not panic for handle {hi}");
                                }
                            }
                        }
                        Ok(())
                    })?;
                }
                Ok(())
            });
            if let Caught::Done(r) = r? {
                r?;
            }
        }
        // now kill our arena, let the allocator recycle its memory, make the other arena allocate and
        // stash at the recycled addresses / same slot indices, and present the surviving (stale)
        // handles to the other (live) arena
        let arena = self.arena.take();
        guarded("drop(Arena)", move || drop(arena))?;
        self.sync_logs()?;
        talloc::flush_freed();
        let mut fresh: Vec<H> = vec![];
        {
            let r = guarded("stash in the other arena", || {
                other.arena().mutate(|mc, root| {
                    let s = root.sets[0].unwrap();
                    for k in 0..3u32 {
                        let g = gc_arena::Gc::new(
                            mc,
                            Node { id: 600 + k, pat: 0, _tok: Tok(600 + k), s: [gc_arena::Lock::new(None), gc_arena::Lock::new(None)], w: gc_arena::Lock::new(None), dw: Box::new(WSlot(gc_arena::Lock::new(None))), leaf: gc_arena::Lock::new(None), wl: gc_arena::Lock::new(None), cell: gc_arena::Lock::new(None), held: Default::default() },
                        );
                        fresh.push(s.stash::<gc_arena::Rootable![Node<'_>]>(mc, g));
                    }
                })
            })?;
            let _ = r;
        }
        {
            let this: &World = &self;
            let r = guarded("presentation of a handle of a destroyed arena", || -> VResult {
                for (hi, h) in this.hs.iter().enumerate() {
                    let Some(h) = h else { continue };
                    other.arena().mutate(|_, root| -> VResult {
                        let s = root.sets[0].unwrap();
                        if s.contains(h) || s.try_fetch(h).is_ok() {
                            viol!("c14.dead_arena_handle_accepted", "a live set accepted handle {hi} of a destroyed arena");
                        }
                        let p = std::panic::catch_unwind(std::panic::AssertUnwindSafe(|| {
                            let _ = s.fetch(h);
                        }));
                        if p.is_ok() {
                            viol!("c14.dead_arena_handle_accepted", "fetch of handle {hi} of a destroyed arena did not panic");
                        }
                        Ok(())
                    })?;
                }
                Ok(())
            });
            if let Caught::Done(r) = r? {
                r?;
            }
        }
        // a set created only now (in a third arena) may land on the address of the dead arena's set
        let late = World::new(Scope { sets: 1, ..self.sc }, 768);
        {
            let this: &World = &self;
            let r = guarded("presentation to a set created after the arena died", || -> VResult {
                for (hi, h) in this.hs.iter().enumerate() {
                    let Some(h) = h else { continue };
                    late.arena().mutate(|_, root| -> VResult {
                        let s = root.sets[0].unwrap();
                        if s.contains(h) || s.try_fetch(h).is_ok() {
                            viol!("c14.dead_arena_handle_accepted", "a set created after the handle's arena was destroyed accepted handle {hi}");
                        }
                        Ok(())
                    })?;
                }
                Ok(())
            });
            if let Caught::Done(r) = r? {
                r?;
            }
        }
        self.hs = [None, None, None];
        drop(late);
        drop(fresh);
        drop(other);
        self.sync_logs()?;
        Ok(())
    }

    /// C11: a failing constructor / root mapping releases everything. variant 0: map_root callback
    /// panics; 1: try_map_root callback panics; 2: try_map_root returns Err; 3: Arena::new callback
    /// panics; 4: Arena::try_new returns Err; 5: Arena::try_new callback panics (3-5 on a fresh arena).
    pub fn probe_c11(mut self, variant: u8) -> VResult {
        let base = self.base;
        if variant >= 3 {
            // a fresh arena whose constructor allocates two values and then fails
            let metrics_out: std::cell::RefCell<Option<gc_arena::metrics::Metrics>> = std::cell::RefCell::new(None);
            let d0 = drops_len();
            let r = guarded("failing Arena constructor", || {
                let body = |mc: &gc_arena::Mutation<'_>| {
                    *metrics_out.borrow_mut() = Some(mc.metrics().clone());
                    for k in 0..2u32 {
                        let g = talloc::subject(|| gc_arena::Gc::new(mc, Leaf { id: 9100 + k, pat: pattern(9100 + k), n: 0, _tok: Tok(base + 124 + k % 2) }));
                        talloc::register_gc(gc_arena::Gc::as_ptr(g) as usize, base + 122 + k);
                    }
                };
                match variant {
                    3 => {
                        let _a: A = talloc::subject(|| {
                            gc_arena::Arena::new(|mc| {
                                body(mc);
                                injected_panic()
                            })
                        });
                    }
                    4 => {
                        let r: Result<A, ()> = talloc::subject(|| {
                            gc_arena::Arena::try_new(|mc| {
                                body(mc);
                                Err(())
                            })
                        });
                        assert!(r.is_err());
                    }
                    6 => {
                        // a rootless_mutate callback that allocates and then panics
                        talloc::subject(|| {
                            gc_arena::arena::rootless_mutate(|mc| {
                                body(mc);
                                injected_panic()
                            })
                        });
                    }
                    _ => {
                        let _r: Result<A, ()> = talloc::subject(|| {
                            gc_arena::Arena::try_new(|mc| {
                                body(mc);
                                injected_panic()
                            })
                        });
                    }
                }
            })?;
            let expect_panic = variant != 4;
            if matches!(r, Caught::Injected) != expect_panic {
                viol!("c11.swallowed", "failing constructor (variant {variant}): panic propagated = {}", matches!(r, Caught::Injected));
            }
            if drops_len() - d0 != 2 {
                viol!("c11.failed_constructor", "a failed Arena constructor destructed {} of the 2 values it had allocated", drops_len() - d0);
            }
            if talloc::gc_live_count_range(base + 122, base + 124) != 0 {
                viol!("c11.failed_constructor", "a failed Arena constructor did not release the allocations it had made");
            }
            let m = metrics_out.borrow_mut().take();
            if let Some(m) = m {
                if m.total_gc_count() != 0 {
                    viol!("c11.failed_constructor", "total_gc_count() = {} after a failed Arena constructor", m.total_gc_count());
                }
            }
            self.drops_seen = drops_len();
            return self.finish();
        }
        let metrics = self.metrics.clone();
        let id = self.alloc_id(KNODE);
        let arena = self.arena.take().expect("arena");
        let cell = std::cell::Cell::new(0usize);
        let r = guarded("failing map_root / try_map_root", || match variant {
            0 => {
                let _a = arena.map_root::<RootT>(|mc, mut root| {
                    let g = gc_arena::Gc::new(mc, Node { id: base + id as u32, pat: pattern(base + id as u32), _tok: Tok(base + id as u32), s: [gc_arena::Lock::new(None), gc_arena::Lock::new(None)], w: gc_arena::Lock::new(None), dw: Box::new(WSlot(gc_arena::Lock::new(None))), leaf: gc_arena::Lock::new(None), wl: gc_arena::Lock::new(None), cell: gc_arena::Lock::new(None), held: Default::default() });
                    cell.set(gc_arena::Gc::as_ptr(g) as usize);
                    talloc::register_gc(cell.get(), base + id as u32);
                    root.r[0] = Some(g);
                    if true {
                        injected_panic();
                    }
                    root
                });
            }
            _ => {
                let r = arena.try_map_root::<RootT, ()>(|mc, mut root| {
                    let g = gc_arena::Gc::new(mc, Node { id: base + id as u32, pat: pattern(base + id as u32), _tok: Tok(base + id as u32), s: [gc_arena::Lock::new(None), gc_arena::Lock::new(None)], w: gc_arena::Lock::new(None), dw: Box::new(WSlot(gc_arena::Lock::new(None))), leaf: gc_arena::Lock::new(None), wl: gc_arena::Lock::new(None), cell: gc_arena::Lock::new(None), held: Default::default() });
                    cell.set(gc_arena::Gc::as_ptr(g) as usize);
                    talloc::register_gc(cell.get(), base + id as u32);
                    root.r[0] = Some(g);
                    if variant == 1 {
                        injected_panic();
                    }
                    Err(())
                });
                assert!(r.is_err());
            }
        })?;
        if matches!(r, Caught::Injected) != (variant != 2) {
            viol!("c11.swallowed", "failing root mapping (variant {variant}): panic propagated = {}", matches!(r, Caught::Injected));
        }
        self.addrs.push((cell.get(), id));
        self.sync_logs()?;
        for (i, o) in self.sh.objs.iter().enumerate() {
            if !o.dropped || !o.freed {
                viol!("c11.failed_map_root", "after a failed map_root / try_map_root (variant {variant}) object {i} is destructed={} released={}", o.dropped, o.freed);
            }
        }
        if metrics.total_gc_count() != 0 {
            viol!("c11.failed_map_root", "total_gc_count() = {} after a failed map_root / try_map_root", metrics.total_gc_count());
        }
        if talloc::gc_live_count_range(base, base + 128) != 0 {
            viol!("c11.failed_map_root", "a Gc block is still allocated after a failed map_root / try_map_root");
        }
        drop(metrics);
        self.finish()
    }
    pub const C11_PROBES: u8 = 7;

    /// End of an execution: drop everything the world holds.
    pub fn finish(mut self) -> VResult {
        let hs = std::mem::replace(&mut self.hs, [None, None, None]);
        let arena = self.arena.take();
        guarded("drop(Arena)", move || {
            drop(arena);
            drop(hs);
        })?;
        self.sync_logs()
    }
    fn finish_quiet(mut self) -> Option<()> {
        let hs = std::mem::replace(&mut self.hs, [None, None, None]);
        let arena = self.arena.take();
        let _ = guarded("drop(Arena)", move || {
            drop(arena);
            drop(hs);
        });
        None
    }
}


fn c03_body<'gc>(w: &World, mc: &gc_arena::Mutation<'gc>, m: &[Option<Obj<'gc>>], d0: usize, f0: usize) -> VResult {
    let base = w.base;
    let t1 = talloc::subject(|| gc_arena::Gc::new(mc, Leaf { id: 9001, pat: pattern(9001), n: 0, _tok: Tok(base + 126) }));
    let mut ups = vec![];
    for (i, o) in m.iter().enumerate() {
        if let Some(Obj::Node(g)) = o {
            if let Some(wk) = g.wk() {
                if let Some(u) = wk.upgrade(mc) {
                    ups.push((w.sh.objs[i].w.unwrap(), u));
                }
            }
        }
    }
    // rootless_mutate nested in the callback and in itself: the end of an inner call destructs exactly
    // the inner call's allocations, nothing of the call (or arena callback) it is nested in
    let t0 = 5000 + base;
    let dt = crate::world::dropped_times;
    let b4 = [dt(t0), dt(t0 + 1), dt(t0 + 2)];
    let r: Result<(), &'static str> = talloc::subject(|| {
        gc_arena::arena::rootless_mutate(|m2| {
            let x = gc_arena::Gc::new(m2, Leaf { id: 9101, pat: pattern(9101), n: 0, _tok: Tok(t0) });
            let inner_ok = gc_arena::arena::rootless_mutate(|m3| {
                let y = gc_arena::Gc::new(m3, Leaf { id: 9102, pat: pattern(9102), n: 0, _tok: Tok(t0 + 1) });
                y.pat == pattern(9102) && x.pat == pattern(9101)
            });
            if !inner_ok {
                return Err("allocations of nested rootless_mutate calls do not read their values");
            }
            if dt(t0 + 1) != b4[1] + 1 {
                return Err("the allocation of an inner rootless_mutate call was not destructed exactly once when the call ended");
            }
            if dt(t0) != b4[0] {
                return Err("the end of an inner rootless_mutate call destructed an allocation of the outer call that is still running");
            }
            let z = gc_arena::Gc::new(m2, Leaf { id: 9103, pat: pattern(9103), n: 0, _tok: Tok(t0 + 2) });
            if x.pat != pattern(9101) || z.pat != pattern(9103) {
                return Err("an allocation of the outer rootless_mutate call no longer reads its value after an inner call ended");
            }
            Ok(())
        })
    });
    if let Err(e) = r {
        viol!("c03.rootless_nested", "{e}");
    }
    if dt(t0) != b4[0] + 1 || dt(t0 + 2) != b4[2] + 1 {
        viol!("c03.rootless_nested", "allocations of a rootless_mutate call were not destructed exactly once when it ended");
    }
    let t2 = talloc::subject(|| gc_arena::Gc::new(mc, Leaf { id: 9002, pat: pattern(9002), n: 0, _tok: Tok(base + 127) }));
    if crate::world::arena_drops_since(d0) != 0 || talloc::gc_frees_len() != f0 {
        viol!("c03.destructed_in_callback", "values destructed or released while the callback was still running (huge debt)");
    }
    if t1.pat != pattern(9001) || t2.pat != pattern(9002) {
        viol!("c03.temporary_invalid", "a fresh allocation made in the callback no longer reads its value");
    }
    for (t, u) in ups {
        if u.id != base + t as u32 || u.pat != pattern(base + t as u32) {
            viol!("c03.upgraded_invalid", "pointer obtained from upgrade no longer reads object {t}");
        }
    }
    Ok(())
}

pub fn is_nofire(v: &Viol) -> bool {
    v.oracle == NOFIRE
}
