// D4 (C12): compiles with rustc 1.95 and no unsafe; exits 3 after showing that the escaped Gc<'static> outlived its arena.
// Generated probe implied-static/phantom/new/outer_var of /verif/lib/c12gen.py; build against gc-arena as a normal binary.
#![forbid(unsafe_code)]
#![allow(unused, dropping_copy_types, dropping_references)]
use gc_arena::{Arena, Collect, DynamicRoot, DynamicRootSet, Finalization, Gc, GcBuilder, GcWeak, Lock, Mutation, RefLock, Rootable, Static, barrier::Write, arena::rootless_mutate, metrics::Metrics};
use std::cell::{Cell, RefCell};
use std::marker::PhantomData;
use std::rc::Rc;

#[derive(Collect)]
#[collect(no_drop)]
struct R<'gc> {
    g: Gc<'gc, Lock<u32>>,
    rl: Gc<'gc, RefLock<u32>>,
    w: GcWeak<'gc, Lock<u32>>,
    slot: Gc<'gc, Lock<Option<Gc<'gc, Lock<u32>>>>>,
    set: DynamicRootSet<'gc>,
}
fn make<'gc>(mc: &Mutation<'gc>) -> R<'gc> {
    let g = Gc::new(mc, Lock::new(1));
    R { g, rl: Gc::new(mc, RefLock::new(2)), w: Gc::downgrade(g), slot: Gc::new(mc, Lock::new(None)), set: DynamicRootSet::new(mc) }
}
type AR = Arena<Rootable![R<'_>]>;
fn arena() -> AR { Arena::new(|mc| make(mc)) }
fn need_static<T: 'static>(_: T) {}

struct P(Rc<Cell<bool>>);
impl Drop for P { fn drop(&mut self) { self.0.set(true); } }
impl<'gc> gc_arena::Rootable<'gc> for P { type Root = P; }
gc_arena::static_collect!(P);

fn main() {
let flag = Rc::new(Cell::new(false));
let mut out: Option<Gc<'static, P>> = None;
let arena = Arena::<Rootable![PhantomData<&'static &'_ ()>]>::new(|mc| { let keep = Gc::new(mc, P(flag.clone())); out = Some(keep); PhantomData });
drop(arena);
let escaped: Gc<'static, P> = out.unwrap();
let _still_held = &escaped;
if flag.get() { println!("escaped Gc<'static> outlived its arena: value destructed while the pointer is still held"); std::process::exit(3); }

}
