// D3 (C19): compiles without unsafe; exits 3 after obtaining a Gc<Void> / Gc<private::Token> nobody constructed.
#![allow(unused, unused_unsafe)]
use gc_arena::{Arena, Collect, Gc, GcBuilder, GcWeak, GcSliceBuilder, GcSliceWithHeaderBuilder, GcStrBuilder, Lock, RefLock, Mutation, Rootable, arena::rootless_mutate, barrier::{Write, Unlock}, lock::OnceLock, meta::{UnitPtrMeta, UnitTypeMeta}, zst_cache::ZstCache};
enum Void {}
mod private { pub struct Token(()); impl Token { pub fn describe(&self) -> &'static str { "a Token that only module `private` can create" } } }
#[repr(transparent)]
struct Twin(u32);
fn main() {
    let mut conjured = false;
    rootless_mutate(|mc| {
        let c = ZstCache::<8>::new(mc); let v: Option<Gc<private::Token>> = c.alloc_zst::<private::Token>(); if let Some(t) = v { println!("{}", t.describe()); conjured = true; }
    });
    if conjured { println!("a Gc<T> was obtained from safe code for a T that was never constructed"); std::process::exit(3); }
}
