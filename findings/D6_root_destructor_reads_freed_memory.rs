// D6 (fixed by 263a412): safe code; the root value's destructor dereferences its Gc while the arena is dropped.
// Before the fix every string read below was garbage (freed memory); build as a binary crate depending on gc-arena.
use gc_arena::{Arena, Gc, Rootable};
use std::cell::RefCell;
thread_local! { static SEEN: RefCell<Vec<String>> = RefCell::new(vec![]); }
struct Evil<'gc>(Gc<'gc, String>);
impl<'gc> Drop for Evil<'gc> {
    fn drop(&mut self) {
        SEEN.with(|s| s.borrow_mut().push((*self.0).clone()));
    }
}
struct Evil2<'gc>(Gc<'gc, String>, u8);
impl<'gc> Drop for Evil2<'gc> {
    fn drop(&mut self) {
        SEEN.with(|s| s.borrow_mut().push(format!("2:{}", *self.0)));
    }
}
fn main() {
    let text = "hello world this is a long string";
    let arena = Arena::<Rootable![Evil<'_>]>::new(|mc| Evil(Gc::new(mc, text.to_string())));
    drop(arena);
    // map_root: the old root is consumed by the callback, the new one dropped with the arena
    let arena = Arena::<Rootable![Evil<'_>]>::new(|mc| Evil(Gc::new(mc, text.to_string())));
    let arena = arena.map_root::<Rootable![Evil2<'_>]>(|_, r| Evil2(r.0, 1));
    drop(arena);
    // a panicking map_root callback: root dropped during unwinding, then the context
    let arena = Arena::<Rootable![Evil<'_>]>::new(|mc| Evil(Gc::new(mc, text.to_string())));
    let r = std::panic::catch_unwind(std::panic::AssertUnwindSafe(|| {
        let _ = arena.map_root::<Rootable![Evil2<'_>]>(|_, r| { let _keep = r; panic!("boom") });
    }));
    assert!(r.is_err());
    let arena = Arena::<Rootable![Evil<'_>]>::new(|mc| Evil(Gc::new(mc, text.to_string())));
    let r: Result<Arena<Rootable![Evil2<'_>]>, ()> = arena.try_map_root(|_, r| { let _keep = r; Err(()) });
    assert!(r.is_err());
    SEEN.with(|s| {
        let s = s.borrow();
        println!("{:?}", *s);
        assert_eq!(s.len(), 5);
        for x in s.iter() { assert!(x.ends_with(text), "root destructor read {x:?}"); }
    });
    println!("ok");
}
