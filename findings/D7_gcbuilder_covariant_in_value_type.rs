// D7: safe code. GcBuilder<'gc, T> is covariant in T although `write` consumes a T: a builder created for
// `&'static Tracked` (Collect, never traced) is coerced to a builder for `&'gc Tracked` and given a reference
// into another Gc allocation. The collector knows nothing about that reference; the referent is destructed
// while a `&Tracked` to it is still reachable from the root.
use std::sync::atomic::{AtomicUsize, Ordering};
use gc_arena::{Arena, Gc, GcBuilder, Rootable, lock::Lock};
static DROPS: AtomicUsize = AtomicUsize::new(0);
struct Tracked(u32);
impl Drop for Tracked { fn drop(&mut self) { DROPS.fetch_add(1, Ordering::SeqCst); } }
type Root = Rootable![Gc<'_, Lock<Option<Gc<'_, &'_ Tracked>>>>];
fn main() {
    let mut arena = Arena::<Root>::new(|mc| Gc::new(mc, Lock::new(None)));
    arena.mutate(|mc, root| {
        let victim: Gc<Tracked> = Gc::new_static(mc, Tracked(7));
        let b: GcBuilder<'_, &'static Tracked> = GcBuilder::new();
        let b: GcBuilder<'_, &Tracked> = b;
        let holder = b.write(mc, victim.as_ref());
        root.set(mc, Some(holder));
    });
    arena.finish_cycle();
    arena.finish_cycle();
    let d = DROPS.load(Ordering::SeqCst);
    println!("drops = {d} (the root still holds a &Tracked)");
    if d != 0 { std::process::exit(3); }
}
