use gc_arena::{Arena, Collect, Gc, RefLock, Rootable};
#[derive(Collect)]
#[collect(no_drop)]
struct Root<'gc> { a: Gc<'gc, RefLock<i32>> }
fn main() {
    let mut arena = Arena::<Rootable![Root<'_>]>::new(|mc| Root { a: Gc::new(mc, RefLock::new(1)) });
    arena.metrics().adjust_debt(1000.0);
    arena.finish_marking();
    let before = arena.metrics().allocation_debt();
    arena.mutate(|mc, root| { *root.a.borrow_mut(mc) += 1; });
    let after = arena.metrics().allocation_debt();
    println!("debt before barrier {before}, after {after}");
    assert!(after >= before, "write barrier paid debt");
}
