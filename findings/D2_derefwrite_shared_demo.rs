use gc_arena::{Arena, Collect, Gc, Lock, Rootable, barrier::Write};
use std::rc::Rc;

struct Noisy(u32);
impl Drop for Noisy { fn drop(&mut self) { println!("drop Noisy({})", self.0); } }
unsafe impl<'gc> Collect<'gc> for Noisy { const NEEDS_TRACE: bool = false; }

#[derive(Collect)]
#[collect(no_drop)]
struct Node<'gc> { slot: Lock<Option<Gc<'gc, Noisy>>>, rc: Rc<Lock<Option<Gc<'gc, Noisy>>>> }

#[derive(Collect)]
#[collect(no_drop)]
struct Root<'gc> { a: Gc<'gc, Node<'gc>>, b: Option<Gc<'gc, Node<'gc>>> }

fn main() {
    let which = std::env::args().nth(1).unwrap();
    let mut arena = Arena::<Rootable![Root<'_>]>::new(|mc| Root { a: Gc::new(mc, Node { slot: Lock::new(None), rc: Rc::new(Lock::new(None)) }), b: None });
    arena.finish_marking();
    match which.as_str() {
        "ref" => arena.mutate(|mc, root| {
            let child = Gc::new(mc, Noisy(1));
            let mut r: &Lock<Option<Gc<Noisy>>> = &root.a.slot;
            Write::from_mut(&mut r).as_deref().unlock().set(Some(child));
        }),
        "rc" => arena.mutate(|mc, root| {
            let child = Gc::new(mc, Noisy(2));
            let mut r = root.a.rc.clone();
            Write::from_mut(&mut r).as_deref().unlock().set(Some(child));
        }),
        "coown" => {
            // white co-owner allocated during marking shares the Rc of black a
            arena.mutate_root(|mc, root| { let n = Gc::new(mc, Node { slot: Lock::new(None), rc: root.a.rc.clone() }); root.b = Some(n); });
            arena.finish_marking();
            // now both black. new white node co-owner, unrooted temp:
            arena.mutate(|mc, root| {
                let tmp = Gc::new(mc, Node { slot: Lock::new(None), rc: root.a.rc.clone() });
                let child = Gc::new(mc, Noisy(3));
                gc_arena::barrier::field!(Gc::write(mc, tmp), Node, rc).as_deref().unlock().set(Some(child));
            });
        }
        _ => panic!(),
    }
    arena.finish_cycle();
    println!("after cycle");
    arena.mutate(|_, root| {
        let a = root.a.slot.get().map(|g| g.0); let b = root.a.rc.get().map(|g| g.0);
        println!("reachable child reads {:?} {:?}", a, b);
    });
}
