// D5 (C09): stop-the-world pacing, the whole heap is garbage: collect_debt returns while the
// arena still reports Sweeping. Run as an integration test of gc-arena (tests/d5.rs).
use gc_arena::{Arena, Gc, Rootable, arena::CollectionPhase, metrics::Pacing};

#[test]
fn stw_returns_sweeping_on_empty_heap() {
    let mut arena = Arena::<Rootable![()]>::new(|_| ());
    arena.metrics().set_pacing(Pacing { min_sleep: 0, sleep_factor: 0.0, ..Pacing::STOP_THE_WORLD });
    arena.mutate(|mc, _| {
        Gc::new(mc, 1u8);
    });
    assert!(arena.metrics().allocation_debt() > 0.0);
    arena.collect_debt();
    assert_eq!(arena.metrics().total_gc_count(), 0);
    // documented: with all work factors zero the call does not return until Sleeping again
    assert_eq!(arena.collection_phase(), CollectionPhase::Sleeping);
}
