//! NOT a seeded mutant: a safe program that violates C13 against the UNMODIFIED library
//! (worktree HEAD eac28d1, rustc 1.95.0).  Found while looking for mutants.
//!
//! Every `T: 'static` guard of the library (`Write::from_static`, `Collect for Cell/RefCell`,
//! `static_collect!`, `DerefWrite for &T / Rc<T> / Arc<T>`, `Collect for &'static T`, ...)
//! can be satisfied for `'gc`-branded types inside the arena callbacks if the *root type* is
//! only well-formed when `'gc: 'static`.  rustc does not check well-formedness of
//! `Root<'a>` for all `'a` in `dyn for<'a> Rootable<'a, Root = ...>` / in the higher-ranked
//! callback signatures, but it *does* hand the callback body the implied bound `'gc: 'static`
//! (this is the compiler bug mentioned in src/collect_impl.rs above `Collect for &'static T`;
//! that comment only patches one instance of it).
//!
//! Build (from the worktree root, after `cargo build --offline`):
//!   rustc --edition 2024 preexisting_hole.rs -L dependency=target/debug/deps \
//!         --extern gc_arena=$(ls -t target/debug/deps/libgc_arena-*.rlib | head -1)
//! Observed output:  `VIOLATION: Payload is reachable from the root but was destructed`
#![forbid(unsafe_code)]
use std::marker::PhantomData;
use std::sync::atomic::{AtomicBool, Ordering::SeqCst};

use gc_arena::{Arena, Collect, Gc, RefLock, Rootable, barrier::Write};

static DROPPED: AtomicBool = AtomicBool::new(false);

#[derive(Collect)]
#[collect(require_static)]
struct Payload(u32);

impl Drop for Payload {
    fn drop(&mut self) {
        DROPPED.store(true, SeqCst);
    }
}

// `&'static Gc<'gc, ()>` is only well-formed if `'gc: 'static`.  `PhantomData<T>: Collect` for
// every `T`, tuples of `Collect` are `Collect`, so this is an acceptable root type.
type Root<'gc> = (
    Gc<'gc, RefLock<Option<Gc<'gc, Payload>>>>,
    PhantomData<&'static Gc<'gc, ()>>,
);

fn main() {
    let mut arena =
        Arena::<Rootable![Root<'_>]>::new(|mc| (Gc::new(mc, RefLock::new(None)), PhantomData));

    // The lock object is black, the collector is still in the mark phase.
    arena.finish_marking();
    arena.mutate(|mc, root| {
        // Accepted: inside this closure rustc assumes `'gc: 'static`.
        let forged = Write::from_static(root.0.as_ref());
        // A black object adopts a white one, no barrier.
        *forged.unlock().borrow_mut() = Some(Gc::new(mc, Payload(4)));
    });
    arena.finish_cycle();

    if DROPPED.load(SeqCst) {
        println!("VIOLATION: Payload is reachable from the root but was destructed");
        std::process::exit(3);
    }
    println!("ok");
}
